#!/usr/bin/env python3
"""Entry point: python3 check.py <ID> --tier quick|thorough [--replay file]

exit 0  property held on everything explored (open known findings are printed as KNOWN-FINDING lines)
exit 1  at least one violation not listed as an open known finding (VIOLATION property=<id> replay=<path>)
exit 2  inconclusive: harness could not be built/run, or a reach obligation was missed
"""
import argparse
import importlib
import os
import sys
import traceback

sys.path.insert(0, os.path.dirname(os.path.abspath(__file__)))

from vlib import harness as H          # noqa: E402
from vlib.runner import Ctx            # noqa: E402


def replay(ctx, path):
    """Re-run a replay file written on violation: scenario files go through the ASan harness (event log and
    sanitizer findings are printed); other witnesses (sweeps, thread inputs) are printed with their instructions."""
    text = open(path).read()
    print("".join(ln + "\n" for ln in text.split("\n") if ln.startswith("#")))
    if "\nSCN " not in "\n" + text:
        print("(no scenario script in this replay file; see the comment lines above)")
        return 0
    binary = H.build(ctx.work, "asan")
    plain = H.build(ctx.work, "plain")
    body = "\n".join(ln for ln in text.split("\n") if not ln.startswith("#")) + "\n"
    import subprocess
    for name, b in (("asan", binary), ("plain", plain)):
        scn = os.path.join(ctx.work.path, "replay.scn")
        log = os.path.join(ctx.work.path, "replay-%s.log" % name)
        open(scn, "w").write(body)
        env = dict(os.environ)
        env.update(H.SAN_ENV)
        env["ASAN_OPTIONS"] += ":detect_leaks=1"
        subprocess.run([b, scn, log, "--cpu-limit", "120"], env=env)
        print("==== %s build" % name)
        for sc in H.parse_log(log):
            print("scenario %s: %s %s, %d inputs, cpu %d ms" % (sc.sid, sc.status, sc.code, len(sc.inputs), sc.cpu_ms))
            for key, txt in H.sanitizer_findings(sc.stderr):
                print("  finding %s\n%s" % (key, txt))
            for inp in sc.inputs[-40:]:
                print("  input %d %s iface %d -> %s" % (inp.n, inp.op, inp.iface, inp.out))
                for e in inp.ev[:12]:
                    print("     ", e[0], *[x.hex() if isinstance(x, (bytes, bytearray)) else x for x in e[1:]])
    return 0


def main():
    ap = argparse.ArgumentParser()
    ap.add_argument("pid")
    ap.add_argument("--tier", default=os.environ.get("VERIF_TIER", "quick"), choices=["quick", "thorough"])
    ap.add_argument("--seed", type=int, default=int(os.environ.get("VERIF_SEED", "1") or 1))
    ap.add_argument("--replay", default=None)
    ap.add_argument("--keep", action="store_true", help="keep the work directory")
    a = ap.parse_args()
    pid = a.pid.upper()
    mod = importlib.import_module("vlib.props.%s" % pid.lower())
    ctx = Ctx(pid, a.tier, a.seed)
    rc = 2
    try:
        if a.replay:
            rc = replay(ctx, a.replay)
        else:
            mod.run(ctx)
            rc = ctx.report.finish()
    except H.BuildError as e:
        print("INCONCLUSIVE property=%s harness does not build against the working tree:\n%s" % (pid, e))
        rc = 2
    except Exception:
        print("INCONCLUSIVE property=%s harness failure:\n%s" % (pid, traceback.format_exc()))
        rc = 2
    finally:
        if not a.keep:
            ctx.close()
    sys.exit(rc)


if __name__ == "__main__":
    main()
