#!/usr/bin/env python3
"""Entry point: python3 check.py <ID> --tier quick|thorough [--replay file]

exit 0  property held on everything explored (open known findings are printed as KNOWN-FINDING lines)
exit 1  at least one violation not listed as an open known finding (VIOLATION property=<id> replay=<path>)
exit 2  inconclusive: harness could not be built/run, or a reach obligation was missed
"""
import argparse
import importlib
import os
import sys
import traceback

sys.path.insert(0, os.path.dirname(os.path.abspath(__file__)))

from vlib import harness as H          # noqa: E402
from vlib.runner import Ctx            # noqa: E402


def main():
    ap = argparse.ArgumentParser()
    ap.add_argument("pid")
    ap.add_argument("--tier", default=os.environ.get("VERIF_TIER", "quick"), choices=["quick", "thorough"])
    ap.add_argument("--seed", type=int, default=int(os.environ.get("VERIF_SEED", "1") or 1))
    ap.add_argument("--replay", default=None)
    ap.add_argument("--keep", action="store_true", help="keep the work directory")
    a = ap.parse_args()
    pid = a.pid.upper()
    mod = importlib.import_module("vlib.props.%s" % pid.lower())
    ctx = Ctx(pid, a.tier, a.seed)
    rc = 2
    try:
        if a.replay:
            rc = mod.replay(ctx, a.replay)
        else:
            mod.run(ctx)
            rc = ctx.report.finish()
    except H.BuildError as e:
        print("INCONCLUSIVE property=%s harness does not build against the working tree:\n%s" % (pid, e))
        rc = 2
    except Exception:
        print("INCONCLUSIVE property=%s harness failure:\n%s" % (pid, traceback.format_exc()))
        rc = 2
    finally:
        if not a.keep:
            ctx.close()
    sys.exit(rc)


if __name__ == "__main__":
    main()
