"""Build the harness against /repo's working tree, run scenario shards, parse event logs."""
import os
import re
import shutil
import subprocess
import sys
import time
from concurrent.futures import ThreadPoolExecutor

VERIF = os.path.dirname(os.path.dirname(os.path.abspath(__file__)))
REPO = os.environ.get("VERIF_REPO", "/repo")
HARN = os.path.join(VERIF, "harness")
CORE = ["lltdResponder/lltdBlock.c", "lltdResponder/lltdAutomata.c",
        "lltdResponder/lltdTlvOps.c", "lltdResponder/lltdWire.c"]
ESP32 = "os/esp32/daemon/lltd_esp32.c"
NCPU = min(16, os.cpu_count() or 4)

# guard for source hooks (none are needed so far, DESIGN.md 2.8); always defined in verification builds
HOOK_DEFINE = "-DLLTD_VERIF_HOOKS"

FLAVOURS = {
    "asan": ("gcc", ["-O1", "-g", "-fno-omit-frame-pointer", "-fsanitize=address,undefined"]),
    "asan-clang": ("clang", ["-O1", "-g", "-fno-omit-frame-pointer", "-fsanitize=address,undefined",
                             "-fno-sanitize=object-size"]),
    "tsan": ("gcc", ["-O1", "-g", "-fsanitize=thread"]),
    "msan": ("clang", ["-O1", "-g", "-fno-omit-frame-pointer", "-fsanitize=memory",
                       "-fsanitize-memory-track-origins"]),
    "plain": ("gcc", ["-O2", "-g"]),
    # plain char is unsigned on ARM / PowerPC / Xtensa ports: the same code with that ABI choice
    "asan-uchar": ("gcc", ["-O1", "-g", "-fno-omit-frame-pointer", "-fsanitize=address,undefined", "-funsigned-char"]),
    # size-optimised release builds (OpenWrt, ESP-IDF): __OPTIMIZE_SIZE__ paths, other inlining decisions
    "plain-os": ("gcc", ["-Os", "-g"]),
    "plain-clang-os": ("clang", ["-Os", "-g"]),
    "cov": ("gcc", ["-O0", "-g", "--coverage"]),
}

SAN_ENV = {
    "ASAN_OPTIONS": "abort_on_error=0:exitcode=99:detect_leaks=0:allocator_may_return_null=1:"
                    "handle_abort=1:print_legend=0:print_full_thread_history=0:malloc_context_size=8",
    "UBSAN_OPTIONS": "print_stacktrace=1:halt_on_error=0:exitcode=98",
    "MSAN_OPTIONS": "exitcode=97:halt_on_error=1",
    "TSAN_OPTIONS": "halt_on_error=0:exitcode=96:report_signal_unsafe=0:second_deadlock_stack=1",
    "LSAN_OPTIONS": "exitcode=95:use_unaligned=1",   # probe_t is pack(2): its next pointer is unaligned
}


class BuildError(Exception):
    pass


class Workdir:
    """Per-invocation scratch directory under /verif/.work, removed on close."""

    def __init__(self, tag):
        self.path = os.path.join(VERIF, ".work", "%s-%d" % (tag, os.getpid()))
        shutil.rmtree(self.path, ignore_errors=True)
        os.makedirs(self.path)

    def sub(self, name):
        p = os.path.join(self.path, name)
        os.makedirs(p, exist_ok=True)
        return p

    def close(self):
        shutil.rmtree(self.path, ignore_errors=True)
        try:
            os.rmdir(os.path.dirname(self.path))
        except OSError:
            pass


def _run(cmd, **kw):
    return subprocess.run(cmd, stdout=subprocess.PIPE, stderr=subprocess.STDOUT, text=True, **kw)


def build(work, flavour, program="vh_frames", extra_src=(), extra_flags=(), core=True, esp32=True,
          harness_src=None, name=None, libs=()):
    """Compile `program` for `flavour` from the *current* working tree of /repo. Returns path."""
    cc, flags = FLAVOURS[flavour]
    out = os.path.join(work.sub("bin"), name or ("%s-%s" % (program, flavour)))
    if harness_src is None:
        harness_src = {
            "vh_frames": ["vh_frames.c", "vh_flow.c", "vport.c"],
            "vh_sweep": ["vh_sweep.c", "vport.c"],
            "vh_threads": ["vh_threads.c", "vport.c"],
        }[program]
    srcs = [os.path.join(HARN, s) for s in harness_src]
    if core:
        srcs += [os.path.join(REPO, s) for s in CORE]
    incs = ["-I" + os.path.join(REPO, "lltdResponder"), "-I" + HARN]
    defs = [HOOK_DEFINE]
    if esp32 and program == "vh_frames":
        srcs.append(os.path.join(REPO, ESP32))
        incs.append("-I" + os.path.join(REPO, "os/esp32/daemon"))
        defs.append("-DVH_WITH_ESP32")
    srcs += list(extra_src)
    cmd = [cc] + flags + defs + list(extra_flags) + incs + ["-w", "-o", out] + srcs + list(libs)
    objdir = work.sub("obj-%s-%s" % (program, flavour))
    r = _run(cmd, cwd=objdir)
    if r.returncode != 0:
        raise BuildError("build %s/%s failed:\n%s\n%s" % (program, flavour, " ".join(cmd), r.stdout[-4000:]))
    return out


def build_many(work, specs):
    """specs: list of dict(kwargs for build). Parallel. Returns list of paths."""
    with ThreadPoolExecutor(max_workers=min(len(specs), NCPU)) as ex:
        futs = [ex.submit(build, work, **s) for s in specs]
        return [f.result() for f in futs]


# --------------------------------------------------------------------- scenarios

class Scenario:
    """Accumulates script lines (DESIGN.md A.2, text form)."""

    def __init__(self, sid, meta=None):
        self.sid = str(sid)
        self.lines = []
        self.meta = meta or {}

    def add(self, line):
        self.lines.append(line)
        return self

    def iface(self, i, **kw):
        self.lines.append("IFACE %d %s" % (i, kvs(kw)))
        return self

    def glob(self, **kw):
        self.lines.append("GLOBAL %s" % kvs(kw))
        return self

    def frame(self, i, raw, op="F"):
        self.lines.append("%s %d %s" % (op, i, raw.hex()))
        return self

    GAPS_MS = [1, 999, 1000, 5000, 29999, 30001, 59999, 60001, 120000, 3600000, 3600001, 40000000, (1 << 32) + 30000, 1 << 33]
    BASES_MS = [0, 1, 999, 10 ** 6, (1 << 32) - 20000, (1 << 32) + 5, 1 << 40]

    def frames(self, i, frames, rng=None, p_gap=0.0, base=False, inserts=None, shadow=None):
        """The frames in order; with rng, the virtual clock starts at an arbitrary base and moves on by an arbitrary
        amount between some of the frames (no frame-level behaviour may depend on either).  Clock lines are not
        inputs, so input k of the log is still frame k."""
        gaps = 0
        if rng is not None and base and rng.random() < 0.5:
            self.lines.append("NOW %d" % rng.choice(self.BASES_MS))
        sh = list(shadow[1]) if shadow else []
        per = (len(sh) / max(1, len(frames))) if sh else 0.0
        for k, fr in enumerate(frames):
            # a second interface served by the same process (shadow = (iface index, its frames)) sees its own traffic in
            # between; the runner hides its inputs from the monitor, the interface under test must not notice it
            while sh and rng is not None and rng.random() < min(0.9, per):
                self.frame(shadow[0], sh.pop(0))
            for ln in (inserts or {}).get(k, ()):
                self.lines.append(ln)           # e.g. "MTU 0 1500 7": the platform changes between two frames
            if rng is not None and p_gap and rng.random() < p_gap:
                self.lines.append("ADV %d" % rng.choice(self.GAPS_MS))
                gaps += 1
            self.frame(i, fr)
        self.meta["clock_gaps"] = self.meta.get("clock_gaps", 0) + gaps
        if shadow:
            self.meta["shadow_iface"] = shadow[0]
        return self

    def text(self):
        return "SCN %s\n%s\nEND\n" % (self.sid, "\n".join(self.lines))


def kvs(kw):
    out = []
    for k, v in kw.items():
        if isinstance(v, (bytes, bytearray)):
            v = bytes(v).hex() or "-"
        out.append("%s=%s" % (k, v))
    return " ".join(out)


def iface_kw(cfg):
    """cfg dict (see gen.py) -> IFACE key/values"""
    kw = dict(mtu=cfg["mtu"], mac=cfg["mac"], flags=cfg.get("flags", 0), iftype=cfg.get("iftype", 6),
              ipv4=cfg.get("ipv4", b"\0" * 4), ipv6=cfg.get("ipv6", b"\0" * 16), speed=cfg.get("speed", 0),
              wifi=int(cfg.get("wifi", 0)), fail=cfg.get("fail", 0), conv=cfg.get("conv", 0),
              rxseed=cfg.get("rxseed", 7))
    if cfg.get("wifi"):
        kw.update(mode=cfg.get("mode", 0), bssid=cfg.get("bssid", b"\0" * 6), ssid=cfg.get("ssid", b""),
                  rate=cfg.get("rate", 0), rssi=cfg.get("rssi", 0), phy=cfg.get("phy", 0))
    return kw


# --------------------------------------------------------------------- running

def run_shards(work, binary, scenarios, tag="run", nshards=None, env_extra=None, cpu_limit=60,
               timeout=3600, wrapper=None):
    """Write scenarios into shard files, run them 16-wide, return list of log paths (shard order)."""
    nshards = nshards or min(NCPU, max(1, len(scenarios)))
    d = work.sub(tag)
    paths = []
    for s in range(nshards):
        sp = os.path.join(d, "s%02d.scn" % s)
        with open(sp, "w") as f:
            for sc in scenarios[s::nshards]:
                f.write(sc.text())
        paths.append(sp)
    env = dict(os.environ)
    env.update(SAN_ENV)
    if env_extra:
        for k, v in env_extra.items():
            if k in SAN_ENV and not v.startswith("="):
                env[k] = SAN_ENV[k] + ":" + v
            else:
                env[k] = v.lstrip("=")
    procs = []
    logs = []
    for sp in paths:
        lp = sp[:-4] + ".log"
        logs.append(lp)
        cmd = (wrapper or []) + [binary, sp, lp, "--cpu-limit", str(cpu_limit)]
        procs.append(subprocess.Popen(cmd, env=env, stdout=subprocess.DEVNULL,
                                      stderr=open(lp + ".harness_err", "w")))
    deadline = time.time() + timeout
    for p in procs:
        try:
            p.wait(timeout=max(1, deadline - time.time()))
        except subprocess.TimeoutExpired:
            p.kill()
            raise RuntimeError("harness shard exceeded the wall-clock watchdog (inconclusive)")
        if p.returncode != 0:
            err = open(logs[procs.index(p)] + ".harness_err").read()[-2000:]
            raise RuntimeError("harness shard failed rc=%s: %s" % (p.returncode, err))
    return logs


# --------------------------------------------------------------------- log parsing

class Inp:
    __slots__ = ("n", "op", "iface", "ev", "out", "led")

    def __init__(self, n, op, iface):
        self.n, self.op, self.iface = n, op, iface
        self.ev = []       # ('T', iface, len, bytes|None) ('Z', ms) ('t', iface, len) ('m', size) ('R', int)
        #                    ('A', kind, [fields]) ('H', iface, now, valid, incomplete, in_tick) ('d', src, len, bytes)
        self.out = None    # (sends, refused, sleeps, sleep_ms, allocs); None if the input never returned
        self.led = None    # (live_cnt, live_bytes, allocs_total, hiwater)

    def sends(self):
        return [e for e in self.ev if e[0] == "T"]


class ScnLog:
    __slots__ = ("sid", "inputs", "status", "code", "cpu_ms", "stderr", "marks", "pre", "ledgers")

    def __init__(self, sid):
        self.sid = sid
        self.inputs = []
        self.status = None     # 'exit' | 'sig' | None (log truncated)
        self.code = None
        self.cpu_ms = 0
        self.stderr = ""
        self.marks = []        # (index into inputs at time of mark, label)
        self.pre = []          # events outside any input
        self.ledgers = []      # explicit LEDGER ops: (input index, tuple)

    @property
    def clean(self):
        return self.status == "exit" and self.code == 0


def parse_log(path):
    """Generator of ScnLog; streams the file (a thorough-tier shard log can be gigabytes)."""
    cur = None
    inp = None
    with open(path, "rb") as f:
        while True:
            line = f.readline()
            if not line:
                break
            line = line.rstrip(b"\n")
            if not line:
                continue
            c = line[0:1]
            try:
                if c == b"T":
                    p = line.split(b" ")
                    ev = ("T", int(p[1]), int(p[2]), bytes.fromhex(p[3].decode()) if len(p) > 3 and p[3] else None)
                    (inp.ev if inp else cur.pre).append(ev)
                elif c == b"I":
                    p = line.split(b" ")
                    inp = Inp(int(p[1]), p[2].decode(), int(p[3]))
                    cur.inputs.append(inp)
                elif c == b"O":
                    p = line.split(b" ")
                    if inp:
                        inp.out = tuple(int(x) for x in p[1:6])
                elif c == b"Z":
                    (inp.ev if inp else cur.pre).append(("Z", int(line[2:])))
                elif c == b"L":
                    t = tuple(int(x) for x in line.split(b" ")[1:5])
                    if inp and inp.out is not None and inp.led is None:
                        inp.led = t
                    else:
                        cur.ledgers.append((len(cur.inputs), t))
                elif c == b"G":
                    cur.ledgers.append((len(cur.inputs), tuple(int(x) for x in line.split(b" ")[1:5])))
                elif c == b"R":
                    (inp.ev if inp else cur.pre).append(("R", int(line[2:])))
                elif c == b"A":
                    p = line.decode().split(" ")
                    (inp.ev if inp else cur.pre).append(("A", p[1], p[2:]))
                elif c == b"H":
                    p = line.split(b" ")
                    (inp.ev if inp else cur.pre).append(("H",) + tuple(int(x) for x in p[1:6]))
                elif c == b"t":
                    p = line.split(b" ")
                    (inp.ev if inp else cur.pre).append(("t", int(p[1]), int(p[2])))
                elif c == b"m":
                    (inp.ev if inp else cur.pre).append(("m", int(line[2:])))
                elif c == b"d":
                    p = line.split(b" ")
                    (inp.ev if inp else cur.pre).append(("d", int(p[1]), int(p[2]), bytes.fromhex(p[3].decode())))
                elif c == b"K":
                    cur.marks.append((len(cur.inputs), line[2:].decode()))
                    inp = None
                elif c == b"S":
                    cur = ScnLog(line[2:].decode())
                    inp = None
                elif c == b"E":
                    ln = int(line[2:])
                    cur.stderr += f.read(ln).decode("utf-8", "replace")
                    f.read(1)
                elif c == b"X":
                    p = line.decode().split(" ")
                    cur.status, cur.code, cur.cpu_ms = p[2], int(p[3]), int(p[4])
                    yield cur
                    cur = None
                    inp = None
                elif c == b"f":
                    (inp.ev if inp else cur.pre).append(("f?", line[3:].decode()))
            except (ValueError, IndexError, AttributeError):
                # a line cut short by a dying child
                continue
    if cur is not None:
        yield cur


# --------------------------------------------------------------------- sanitizer report parsing

CORE_PATH_RE = re.compile(r"(lltdResponder/|os/esp32/|os/linux/lltd_port\.c)")
FRAME_RE = re.compile(r"^\s*#(\d+) (?:0x[0-9a-f]+ (?:in )?)?(\S+) (\S+?)(?::(\d+))?(?::\d+)?(?: \(\S+\))?\s*$")
UB_RE = re.compile(r"^(\S+?):(\d+):(\d+): runtime error: (.*)$")


def _ub_kind(msg):
    m = msg
    if "shift" in m:
        return "shift"
    if "signed integer overflow" in m:
        return "signed-overflow"
    if "misaligned" in m:
        return "misaligned"
    if "null pointer" in m:
        return "null"
    if "out of bounds" in m:
        return "bounds"
    if "division by zero" in m:
        return "div-zero"
    if "not a valid value" in m:
        return "invalid-value"
    if "outside the range of representable" in m:
        return "float-cast"
    if "pointer" in m and "overflow" in m:
        return "pointer-overflow"
    if "unreachable" in m:
        return "unreachable"
    return re.sub(r"[^a-z]+", "-", m.lower())[:40]


def _first_core_frame(lines, start):
    """scan stack lines from start; return ((func, file) naming the innermost and outermost frame in the
    core sources as 'inner<outer'), and the top frame"""
    top = None
    i = start
    inner = None
    outer = None
    while i < len(lines):
        m = FRAME_RE.match(lines[i])
        if not m:
            if lines[i].strip() == "" or not lines[i].lstrip().startswith("#"):
                break
            i += 1
            continue
        func, path = m.group(2), m.group(3)
        if top is None:
            top = (func, path)
        if CORE_PATH_RE.search(path):
            if inner is None:
                inner = (func, os.path.basename(path))
            outer = func
        i += 1
    if inner is None:
        return None, top
    name = inner[0] if outer == inner[0] else "%s<%s" % (inner[0], outer)
    return (name, inner[1]), top


def sanitizer_findings(stderr):
    """-> list of (key, text excerpt). Keys name tool, kind and the core function, never line numbers."""
    out = []
    if not stderr:
        return out
    lines = stderr.split("\n")
    i = 0
    while i < len(lines):
        ln = lines[i]
        m = UB_RE.match(ln)
        if m:
            kind = _ub_kind(m.group(4))
            core, top = _first_core_frame(lines, i + 1)
            if core:
                key = "ubsan:%s:%s:%s" % (kind, core[1], core[0])
            else:
                fn = os.path.basename(m.group(1))
                key = "ubsan:%s:%s:%s" % (kind, fn, top[0] if top else "?")
            out.append((key, ln))
            i += 1
            continue
        if "ERROR: AddressSanitizer:" in ln or "ERROR: LeakSanitizer:" in ln or "WARNING: MemorySanitizer:" in ln \
                or "WARNING: ThreadSanitizer:" in ln:
            tool = "asan" if "AddressSanitizer" in ln else "lsan" if "LeakSanitizer" in ln else \
                "msan" if "MemorySanitizer" in ln else "tsan"
            mk = re.search(r"Sanitizer: ([A-Za-z0-9_-]+)", ln)
            kind = mk.group(1).strip() if mk else "?"
            if kind == "data" and "data race" in ln:
                kind = "data-race"
            if kind == "attempting":
                kind = "bad-free" if "free" in ln else "attempting"
            if tool == "lsan":
                kind = "leak"
            rw = "-"
            j = i + 1
            core = None
            top = None
            # first stack block after the header
            while j < len(lines) and j < i + 60:
                if lines[j].startswith("READ of size") or lines[j].startswith("WRITE of size"):
                    rw = lines[j].split(" ")[0]
                if re.match(r"^\s*(Read|Write|Previous write|Previous read|Atomic)", lines[j]) and tool == "tsan" and rw == "-":
                    rw = lines[j].strip().split(" ")[0].upper()
                if lines[j].lstrip().startswith("#0 "):
                    core, top = _first_core_frame(lines, j)
                    break
                j += 1
            if tool == "lsan":
                # any leaked block allocated through the core counts; name the core function of the first one
                k = i
                core = None
                while k < len(lines):
                    if lines[k].lstrip().startswith("#0 "):
                        c2, t2 = _first_core_frame(lines, k)
                        if c2:
                            core = c2
                            break
                    k += 1
            func = core[0] if core else (top[0] if top else "?")
            scope = "" if core else "noncore:"
            key = "%s:%s:%s:%s%s" % (tool, kind, rw, scope, func) if tool in ("asan", "tsan") else \
                "%s:%s:%s%s" % (tool, kind, scope, func)
            # excerpt: header + up to 12 lines
            out.append((key, "\n".join(lines[i:min(len(lines), i + 14)])))
            if tool in ("asan", "msan", "lsan"):
                # one report per process; skip the rest of the block
                i = len(lines) if tool != "lsan" else i + 1
                if tool == "lsan":
                    break
                continue
        i += 1
    return out


VG_RE = re.compile(r"^==\d+== (Invalid (?:read|write) of size \d+|Conditional jump or move depends on uninitialised value\(s\)|"
                   r"Use of uninitialised value of size \d+|Invalid free\(\) / delete / delete\[\] / realloc\(\)|"
                   r"Syscall param .* uninitialised byte\(s\)|Mismatched free\(\).*|Source and destination overlap.*|"
                   r"Process terminating with default action of signal \d+.*)")
VG_FRAME_RE = re.compile(r"^==\d+==\s+(?:at|by) 0x[0-9A-F]+: (\S+) \((?:in )?([^):]+)")


def valgrind_findings(stderr):
    out = []
    lines = stderr.split("\n")
    for i, ln in enumerate(lines):
        m = VG_RE.match(ln)
        if not m:
            continue
        what = re.sub(r"\d+", "N", m.group(1)).replace(" ", "-")[:50]
        core = None
        top = None
        j = i + 1
        while j < len(lines) and j < i + 25:
            fm = VG_FRAME_RE.match(lines[j])
            if not fm:
                if not lines[j].startswith("==") or lines[j].rstrip().endswith("=="):
                    break
                j += 1
                continue
            if top is None:
                top = fm.group(1)
            src = fm.group(2)
            if re.search(r"(lltdBlock|lltdAutomata|lltdTlvOps|lltdWire|lltd_esp32)\.c", src):
                core = fm.group(1)
                break
            j += 1
        if what.startswith("Process-terminating") and out:
            continue
        out.append(("memcheck:%s:%s%s" % (what, "" if core else "noncore:", core or top or "?"), "\n".join(lines[i:i + 12])))
    return out


HG_RE = re.compile(r"^==\d+== Possible data race during (read|write) of size \d+")


def helgrind_findings(stderr):
    """-> list of (key, excerpt) for helgrind race reports whose first stack has a frame in the core sources"""
    out = []
    lines = stderr.split("\n")
    for i, ln in enumerate(lines):
        m = HG_RE.match(ln)
        if not m:
            continue
        inner = outer = None
        j = i + 1
        started = False
        while j < len(lines) and j < i + 20:
            fm = VG_FRAME_RE.match(lines[j])
            if not fm:
                if started:
                    break
                j += 1
                continue
            started = True
            if re.search(r"(lltdBlock|lltdAutomata|lltdTlvOps|lltdWire)\.c", fm.group(2)):
                if inner is None:
                    inner = fm.group(1)
                outer = fm.group(1)
            j += 1
        if inner:
            name = inner if inner == outer else "%s<%s" % (inner, outer)
            out.append(("helgrind:data-race:%s" % name, "\n".join(lines[i:i + 14])))
    return out


def guard_fault_key(stderr, binary):
    """symbolise the VH-FAULT backtrace left by the plain build's signal handler"""
    if "VH-FAULT backtrace:" not in stderr:
        return None
    addrs = re.findall(r"\(\+(0x[0-9a-f]+)\)", stderr.split("VH-FAULT backtrace:", 1)[1])
    if not addrs:
        return "guard:fault:?"
    try:
        p = subprocess.run(["addr2line", "-f", "-i", "-e", binary] + addrs, stdout=subprocess.PIPE, text=True, timeout=60)
    except Exception:
        return "guard:fault:?"
    ls = p.stdout.split("\n")
    inner = outer = None
    for k in range(0, len(ls) - 1, 2):
        fn, loc = ls[k], ls[k + 1]
        if CORE_PATH_RE.search(loc):
            if inner is None:
                inner = fn
            outer = fn
    if inner is None:
        return "guard:fault:noncore"
    return "guard:fault:%s" % (inner if inner == outer else "%s<%s" % (inner, outer))


def crash_key(scn):
    """Key for a child that died without a sanitizer report (signal, watchdog)."""
    if scn.status == "sig":
        if scn.code in (24, 9):   # SIGXCPU / SIGKILL from RLIMIT_CPU
            return "hang:cpu-limit"
        return "signal:%d" % scn.code
    if scn.status is None:
        return "log-truncated"
    return None
