"""Reference models and grammars used by the offline monitors. Written from the property statements."""
import struct

from . import wire as W

DISCOVERY_TOS = (0, 1)
REQUEST_OPS = (W.OP_DISCOVER, W.OP_EMIT, W.OP_QUERY, W.OP_QLT)
COMMAND_OPS = (W.OP_EMIT, W.OP_QUERY, W.OP_QLT)


class RxBuf:
    """Mirror of the interface's reused receive buffer (tail keeps what earlier frames left)."""

    def __init__(self, mtu, rxseed):
        self.buf = bytearray(W.fill_stream(mtu, rxseed))
        self.mtu = mtu

    def load(self, raw):
        n = min(len(raw), self.mtu)
        self.buf[:n] = raw[:n]
        return self.buf

    def tos(self):
        return self.buf[15]

    def opcode(self):
        return self.buf[17]


class MapperModel:
    """C05 reference model: state in {idle, active(M), opened-by-command(S), unknown}.

    A command (Emit/Query/QueryLargeTlv) received while no mapper is active is inside the property's domain.
    Whether the responder treats it as the session opener or ignores it for mapper purposes is not stated, but
    either way the next Discover *from that same station* must be answered (idle accepts anyone; a session
    opened by S accepts S). That is the only expectation attached to the state 'opened-by-command(S)'; a
    Discover from anyone else there has no expectation and leads to 'unknown'."""
    IDLE, ACTIVE, SOFT, UNKNOWN = "idle", "active", "opened-by-command", "unknown"

    def __init__(self):
        self.state = self.IDLE
        self.mapper = None       # real source of the accepted session opener
        self.apparent = None

    def step(self, buf):
        """buf: the receive buffer content (>= 32 bytes). Returns expectation for this input:
        'hello' | 'silence' | None (no expectation)."""
        tos, op = buf[15], buf[17]
        if tos not in DISCOVERY_TOS:
            return None                      # other services: no change (and no expectation on replies here)
        real_src = bytes(buf[24:30])
        eth_src = bytes(buf[6:12])
        if op == W.OP_DISCOVER:
            if self.state == self.IDLE:
                self.state, self.mapper, self.apparent = self.ACTIVE, real_src, eth_src
                return "hello"
            if self.state == self.ACTIVE:
                return "hello" if real_src == self.mapper else "silence"
            if self.state == self.SOFT:
                if real_src == self.mapper:
                    self.state, self.apparent = self.ACTIVE, eth_src
                    return "hello"
                self.state, self.mapper, self.apparent = self.UNKNOWN, None, None
                return None
            return None
        if op == W.OP_RESET:
            self.state, self.mapper, self.apparent = self.IDLE, None, None
            return None
        if op in COMMAND_OPS:
            if self.state == self.ACTIVE and real_src == self.mapper:
                return None                  # command from the active mapper: no change
            if self.state == self.IDLE:
                self.state, self.mapper, self.apparent = self.SOFT, real_src, eth_src
                return None
            if self.state == self.SOFT and real_src == self.mapper:
                return None
            # command from a stranger while a session exists: the property leaves take-over open
            self.state, self.mapper, self.apparent = self.UNKNOWN, None, None
            return None
        return None


# ------------------------------------------------------------------ C02 grammar

def check_common(fr, own_mac, mtu):
    """-> list of clause names violated by a transmitted frame (structure common to all opcodes)"""
    bad = []
    raw = fr.raw
    if len(raw) > mtu:
        bad.append("longer-than-mtu")
    if fr.ethertype != W.ETHERTYPE:
        bad.append("ethertype")
    if fr.version != 1:
        bad.append("version")
    if fr.reserved != 0:
        bad.append("reserved")
    if fr.real_src != own_mac:
        bad.append("real-source-not-own")
    if fr.opcode not in W.RESPONDER_OPCODES:
        bad.append("opcode-not-for-responder:%d" % fr.opcode)
    return bad


def check_hello_tlvs(raw):
    """Hello: 46-byte headers then TLVs to an end marker which is the last byte; host id first;
    no type twice; legal length for each type. -> (list of violated clauses, tlv list)"""
    bad = []
    if len(raw) < 47:
        return ["hello-too-short"], []
    tlvs, end, err = W.parse_tlvs(raw[46:])
    if err:
        return ["hello-tlv-parse:" + err.replace(" ", "-")], tlvs
    if 46 + end != len(raw) - 1:
        bad.append("hello-bytes-after-end-marker")
    if not tlvs or tlvs[0][0] != W.TLV_HOSTID:
        bad.append("hello-hostid-not-first")
    seen = set()
    for t, v in tlvs:
        if t in seen:
            bad.append("hello-duplicate-type:%#x" % t)
        seen.add(t)
        lim = W.TLV_LEGAL_LEN.get(t)
        if lim is None:
            bad.append("hello-unknown-type:%#x" % t)
        elif not (lim[0] <= len(v) <= lim[1]):
            bad.append("hello-illegal-length:%#x" % t)
    return bad, tlvs


def check_structure(fr, mtu):
    """per-opcode length / inner structure"""
    raw = fr.raw
    op = fr.opcode
    bad = []
    if op in (W.OP_PROBE, W.OP_TRAIN, W.OP_ACK):
        if len(raw) != 32:
            bad.append("length-not-32:%s" % W.OPNAMES[op])
    elif op == W.OP_QUERYRESP:
        if len(raw) < 34:
            bad.append("queryresp-too-short")
        else:
            more, err, n, descs = W.queryresp_fields(raw)
            if len(raw) != 34 + 20 * n:
                bad.append("queryresp-length-vs-count")
    elif op == W.OP_QLTRESP:
        if len(raw) < 34:
            bad.append("qltresp-too-short")
        else:
            more, ln, payload = W.qltresp_fields(raw)
            if len(raw) != 34 + ln:
                bad.append("qltresp-length-vs-field")
    elif op == W.OP_HELLO:
        b, _ = check_hello_tlvs(raw)
        bad += b
    return bad


# ------------------------------------------------------------------ C07 observation model

class ObsModel:
    """Pending observations keyed (eth src, real src) -> (kind, eth dst)."""

    def __init__(self, own):
        self.own = own
        self.pending = {}

    def probe(self, buf):
        op = buf[17]
        eth_dst, eth_src = bytes(buf[0:6]), bytes(buf[6:12])
        real_dst, real_src = bytes(buf[18:24]), bytes(buf[24:30])
        if eth_dst == self.own and real_dst == self.own:
            k = (eth_src, real_src)
            if k not in self.pending:
                self.pending[k] = (1 if op == W.OP_PROBE else 0, eth_dst)
            return "added"
        if eth_dst != self.own and real_dst != self.own:
            return "foreign"
        return "mixed"

    def reset(self):
        self.pending.clear()


# ------------------------------------------------------------------ C08 oracle

def qlt_expect(data, offset, mtu):
    """-> (payload bytes, more flag) for a QueryLargeTlv at `offset` over platform data `data`"""
    cap = max(0, min(mtu - 34, 0x3FFF))      # the length word has 14 count bits (bit 15 'more', bit 14 reserved)
    remain = max(0, len(data) - offset)
    ln = min(cap, remain)
    return data[offset:offset + ln], remain > ln
