"""Glue: run scenarios on a harness build, parse shard logs in parallel, apply a monitor per scenario."""
import multiprocessing as mp
import os
import sys
import traceback

from . import harness as H
from .report import Report

_G = {}


class Ctx:
    def __init__(self, pid, tier, seed):
        self.pid, self.tier, self.seed = pid, tier, seed
        self.quick = tier == "quick"
        self.work = H.Workdir("%s-%s" % (pid, tier))
        self.report = Report(pid, tier, seed)

    def n(self, quick, thorough):
        return quick if self.quick else thorough

    def close(self):
        self.work.close()


def _shard_worker(path):
    pid, tier, seed = _G["ids"]
    rep = Report(pid, tier, seed)
    monitor = _G["monitor"]
    metas = _G["metas"]
    try:
        for scn in H.parse_log(path):
            meta = metas.get(scn.sid)
            rep.evaluations += 1
            sf = H.sanitizer_findings(scn.stderr)
            ck = H.crash_key(scn)
            for key, _txt in sf:
                rep.count("sanitizer:" + key)
            if ck:
                rep.count("crash:" + ck)
            if not scn.clean:
                rep.count("scenarios_not_clean")
            if meta is not None and getattr(meta, "meta", None) and meta.meta.get("shadow_iface") is not None:
                n_all = len(scn.inputs)
                scn.inputs = [i for i in scn.inputs if i.iface != meta.meta["shadow_iface"]]
                rep.count("inputs_of_a_second_interface_in_between", n_all - len(scn.inputs))
            if meta is not None and getattr(meta, "meta", None) and meta.meta.get("clock_gaps"):
                rep.count("clock_gaps_between_frames", meta.meta["clock_gaps"])
            monitor(scn, meta, rep, sf, ck)
    except Exception:
        rep.inconclusive.append("monitor exception on %s: %s" % (path, traceback.format_exc()[-1500:]))
    return rep


def run_monitored(ctx, binary, scenarios, monitor, tag="run", cpu_limit=60, env_extra=None, nshards=None,
                  wrapper=None, timeout=3600):
    """scenarios: list of harness.Scenario (with .meta). monitor(scnlog, meta, report, san_findings, crash_key)."""
    if not scenarios:
        return
    logs = H.run_shards(ctx.work, binary, scenarios, tag=tag, cpu_limit=cpu_limit, env_extra=env_extra,
                        nshards=nshards, wrapper=wrapper, timeout=timeout)
    _G["ids"] = (ctx.pid, ctx.tier, ctx.seed)
    _G["monitor"] = monitor
    _G["metas"] = {s.sid: s for s in scenarios}
    with mp.get_context("fork").Pool(min(H.NCPU, len(logs))) as pool:
        for rep in pool.imap_unordered(_shard_worker, logs):
            ctx.report.merge(rep)
    _G.clear()
    for lp in logs:
        for p in (lp, lp[:-4] + ".scn", lp + ".harness_err"):
            try:
                os.unlink(p)
            except OSError:
                pass


def replay_text(scn_obj, upto_input=None):
    """scenario text for a replay file"""
    return scn_obj.text()
