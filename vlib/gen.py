"""Seeded workload generators: network model, interface attribute sets, frame histories (DESIGN.md 2.5)."""
import random
import struct

from . import wire as W

MTUS = [576, 577, 1280, 1500, 1514, 4096, 9000, 9216]
# every residue of (MTU - header) modulo the record sizes 6, 14 and 20 occurs in these two dense ranges:
# "exactly fits", "one byte short", "one byte over" for station lists, Emit descriptors and QueryResp descriptors
MTUS_TINY = [68, 69, 72, 100, 128, 150, 200, 205, 206, 207, 255, 256, 257, 300, 400, 500, 575]
MTUS_HUGE = [32767 + 34, 32768 + 34, 65535, 65536, 65569, 65570, 65600, 65792, 131072, 1 << 20]      # loopback-class and beyond 16 bits
MTUS_DENSE = list(range(576, 616)) + list(range(1486, 1526)) + list(range(9196, 9217))
GENS = [0, 1, 0x00FF, 0xFF00, 0xFFFF, 0x1234]
BYTEVALS = [0x00, 0x01, 0x7F, 0x80, 0xFF]


def rng_for(seed, pid, salt=0):
    return random.Random("%s/%s/%s" % (seed, pid, salt))


def rand_mac(rng):
    b = bytearray(rng.getrandbits(8) for _ in range(6))
    b[0] = (b[0] & 0xFC) | (0x02 if rng.random() < 0.5 else 0x00)      # unicast; locally administered or not
    if rng.random() < 0.5:
        b[2] |= 0x80
    if bytes(b) == W.BCAST:
        b[5] = 1
    return bytes(b)


def related_mac(rng, base, fold=False):
    """an address that differs from base only a little: one bit of one byte, only the first two bytes (a vendor
    prefix and its locally administered twin), only the last byte - address comparisons that drop or mangle a byte
    treat the two as one station"""
    b = bytearray(base)
    r = 0.0 if fold else rng.random()
    if r < 0.12:
        # the same bit pattern flipped in two places (a comparison that folds the halves of an address together cancels it)
        d0, d1 = rng.choice([(0x02, 0x00), (0x00, 0x01), (0x02, 0x10), (0x40, 0x80)])
        b[0] ^= d0; b[1] ^= d1; b[4] ^= d0; b[5] ^= d1
        b[0] &= 0xFE
        if bytes(b) in (bytes(base), W.BCAST):
            b[3] ^= 0x55
        return bytes(b)
    if r < 0.35:
        b[0] ^= rng.choice([0x02, 0x04, 0x40, 0x80, 0x06])
        if rng.random() < 0.5:
            b[1] ^= rng.choice([0x01, 0x80, 0xFF])
    elif r < 0.7:
        k = rng.randrange(1, 6)
        b[k] ^= rng.choice([0x01, 0x80, 0x10, 0xFF])
    else:
        b[5] = (b[5] + rng.choice([1, 2, 255])) & 0xFF
    b[0] &= 0xFE
    if bytes(b) in (bytes(base), W.BCAST):
        b[3] ^= 0x55
    return bytes(b)


def edge_mac(rng):
    """legal but unusual station addresses: group bit set, all zero, repeating bytes, high bits set"""
    return rng.choice([b"\x01\x00\x5e\x00\x00\x01", b"\x33\x33\x00\x00\x00\x01", b"\x00" * 6, b"\xaa" * 6, b"\xff\xff\xff\xff\xff\xfe",
                       b"\x00\x15\x99\x00\x00\x07", b"\x02\x15\x99\x00\x00\x07", b"\xa5" + bytes(rng.getrandbits(8) for _ in range(5)),
                       W.BCAST, bytes([0x80, 0x80, 0x80, 0x80, 0x80, 0x80]), b"\x01\x80\xc2\x00\x00\x0e"])


def distinct_macs(rng, n, avoid=()):
    out = []
    seen = set(avoid)
    while len(out) < n:
        m = rand_mac(rng)
        if m not in seen:
            seen.add(m)
            out.append(m)
    return out


def edge_word(rng, nbytes):
    """value dense on byte boundaries"""
    r = rng.random()
    if r < 0.35:
        return bytes(rng.choice(BYTEVALS) for _ in range(nbytes))
    if r < 0.5:
        return bytes(range(1, nbytes + 1))           # 01 02 03 04: exposes byte order
    return bytes(rng.getrandbits(8) for _ in range(nbytes))


def rand_name(rng, maxlen=40, printable=False):
    n = rng.choice([0, 1, 2, 15, 16, 17, 31, 32, 33, 34, 40]) if rng.random() < 0.6 else rng.randint(0, maxlen)
    if printable:
        return bytes(rng.choice(b"abcdefghijklmnopqrstuvwxyzABCDEFGH0123456789-_") for _ in range(n))
    return bytes(rng.randint(1, 255) for _ in range(n))


def rand_cfg(rng, mtu=None, wifi=None, mac=None):
    if mtu is None:
        r = rng.random()
        mtu = rng.choice(MTUS) if r < 0.5 else rng.choice(MTUS_DENSE) if r < 0.78 else rng.choice(MTUS_HUGE) if r < 0.8 else rng.randint(576, 9216)
    if wifi is None:
        wifi = rng.random() < 0.4
    cfg = dict(mtu=mtu, mac=mac or rand_mac(rng),
               flags=int.from_bytes(edge_word(rng, 2), "big"),
               iftype=int.from_bytes(edge_word(rng, 4), "big") if rng.random() < 0.6 else rng.choice([0, 1, 6, 6, 24, 53, 71, 71, 131, 144, 161, 209]),      # IANA ifType values too
               ipv4=edge_word(rng, 4), ipv6=edge_word(rng, 16),
               speed=int.from_bytes(edge_word(rng, 4), "big"),
               wifi=1 if wifi else 0, conv=rng.randint(0, 1), rxseed=rng.randint(1, 2 ** 31), fail=0)
    if wifi:
        cfg.update(mode=rng.choice([0, 1, 2, 3, 255]), bssid=edge_word(rng, 6), ssid=rand_name(rng),
                   rate=int.from_bytes(edge_word(rng, 2), "big"), rssi=rng.randint(-128, 127),
                   phy=rng.randint(0, 10))
    # values a real platform reports (a conversion or a special case keyed on a particular well-known value shows here)
    if rng.random() < 0.35:
        cfg["speed"] = rng.choice([0, 100000, 1000000, 10000000, 100000000, 25000000, 540000, 0xFFFFFFFF])
        cfg["flags"] = rng.choice([0, 0x8000, 0x4000, 0x2000, 0x1000, 0x0800, 0xC000, 0xF800, 0xFFFF])
        cfg["ipv4"] = rng.choice([bytes([192, 168, 1, 10]), bytes([10, 0, 0, 1]), bytes([169, 254, 7, 9]), bytes(4), bytes([127, 0, 0, 1]),
                                  b"\xff" * 4, bytes([224, 0, 0, 1]), bytes([172, 16, 254, 254])])
        cfg["ipv6"] = rng.choice([bytes.fromhex("fe80000000000000021122fffe334455"), bytes(15) + b"\x01", bytes(16), b"\xff" * 16,
                                  bytes.fromhex("20010db8000000000000000000000001"), bytes.fromhex("ff020000000000000000000000000001")])
        if wifi:
            cfg.update(mode=rng.choice([0, 1, 2]), rate=rng.choice([2, 22, 108, 300, 1200, 0xFFFF]), rssi=rng.choice([-30, -55, -70, -90, -100, 0]),
                       phy=rng.choice([1, 2, 4, 5, 6, 7, 8]))
    # attributes that are related to each other: an IPv4-mapped / IPv4-compatible IPv6 address, an access point that is the
    # station itself, addresses that repeat one another
    r = rng.random()
    if r < 0.06:
        cfg["ipv6"] = b"\0" * 10 + b"\xff\xff" + cfg["ipv4"]
    elif r < 0.09:
        cfg["ipv6"] = b"\0" * 12 + cfg["ipv4"]
    elif r < 0.11:
        cfg["ipv6"] = (cfg["mac"] * 3)[:16]
    if wifi and rng.random() < 0.08:
        cfg["bssid"] = cfg["mac"]
    return cfg


def ucs2(s):
    return s.encode("utf-16-le")


def rand_global(rng, icon_size=None):
    if icon_size is None:
        icon_size = rng.choice([0, 1, 100, 542, 1466, 3000, 20000]) if rng.random() < 0.7 else rng.randint(0, 32768)
    hw = ucs2("".join(rng.choice("0123456789ABCDEF-") for _ in range(rng.choice([0, 1, 8, 31, 32, 36]))))[:64]
    fn = ucs2("".join(rng.choice("abcdefgh XYZ") for _ in range(rng.choice([0, 1, 7, 20, 64]))))
    r = rng.random()
    if r < 0.08:
        fn += b"\0\0" * rng.choice([1, 1, 2, 5])               # handed out with its terminator / zero padding counted in the size
    elif r < 0.12:
        fn = b"\0" * rng.choice([1, 2, 3, 8, 40])              # nothing but zero bytes
    elif r < 0.18:
        fn = bytes(rng.choice([0, 0, 0xFF, 0x41, rng.getrandbits(8)]) for _ in range(rng.choice([1, 2, 3, 9, 33, 200])))
    g = dict(hostname=rand_name(rng), url=rand_name(rng, 70, True), uuid=bytes(rng.getrandbits(8) for _ in range(16)),
             hwid=hw, icon_seed=rng.randint(1, 2 ** 31), icon_size=icon_size, fname=fn,
             conv=rng.randint(0, 1), fail=0)
    if 0 < icon_size <= 4000 and rng.random() < 0.1:
        # image data with runs of zero bytes, also at its very end
        body = bytearray(W.fill_stream(icon_size, g["icon_seed"]))
        k = rng.choice([1, 2, 4, icon_size]) if icon_size > 4 else icon_size
        body[-k:] = b"\0" * k
        g["icon"] = bytes(body)
    return g


def global_kw(g):
    kw = dict(hostname=g["hostname"], url=g["url"], uuid=g["uuid"], hwid=g["hwid"],
              fname=g["fname"], conv=g.get("conv", 0), fail=g.get("fail", 0))
    if g.get("icon") is not None:
        kw["icon"] = g["icon"].hex() or "-"
    else:
        kw["icon"] = "@%d:%d" % (g["icon_seed"], g["icon_size"]) if g["icon_size"] else "-"
    return kw


def icon_bytes(g):
    if g.get("icon") is not None:
        return g["icon"]
    c = g.get("_icon_cache")
    if c is None or c[0] != (g["icon_seed"], g["icon_size"]):
        c = ((g["icon_seed"], g["icon_size"]),
             W.fill_stream(g["icon_size"], g["icon_seed"]) if g["icon_size"] else b"")
        g["_icon_cache"] = c
    return c[1]


def hwid_effective(g):
    """what QueryLargeTlv(0x13) serves: the UCS-2 string up to its terminator, <= 64 bytes"""
    d = (g["hwid"][:64] + b"\0" * 64)[:64]
    for i in range(0, 63, 2):
        if d[i] == 0 and d[i + 1] == 0:
            return d[:i]
    return d


class Net:
    """A small LAN: own interface(s), >=3 mappers, strangers."""

    def __init__(self, rng, own, nmappers=3, nstrangers=4):
        self.rng = rng
        self.own = own
        ms = distinct_macs(rng, nmappers * 2 + nstrangers, avoid=[own, W.BCAST])
        self.twinned = rng.random() < 0.5
        if self.twinned:
            # a LAN whose stations have nearly equal addresses: the second mapper, the first mapper's bridge and some
            # strangers differ from the first mapper / from this station in a single byte or only in the first two
            for _ in range(8):
                cand = list(ms)
                cand[1] = related_mac(rng, cand[0])
                cand[nmappers] = related_mac(rng, cand[0])
                cand[2 * nmappers] = related_mac(rng, own)
                if nstrangers > 1:
                    cand[2 * nmappers + 1] = related_mac(rng, cand[0])
                if len(set(cand)) == len(cand) and own not in cand and W.BCAST not in cand:
                    ms = cand
                    break
        self.mappers = ms[:nmappers]
        self.bridges = ms[nmappers:2 * nmappers]      # Ethernet source when mapper i is behind a bridge
        self.strangers = ms[2 * nmappers:]
        self.last_seq = None                          # last sequence number / transaction id any builder used
        self.last_gen = {}                            # service -> generation of the last Discover built

    def others(self, k):
        return distinct_macs(self.rng, k, avoid=[self.own, W.BCAST] + self.mappers)


def shadow_iface(rng, cfg, n):
    """a second interface of the same host and its own traffic: same hardware address (VLAN / bond / macvlan), a
    consecutive one, or an unrelated one; other mappers, both services, Resets included"""
    r = rng.random()
    mac = cfg["mac"] if r < 0.4 else related_mac(rng, cfg["mac"]) if r < 0.7 else rand_mac(rng)
    cfg1 = rand_cfg(rng, mtu=rng.choice([cfg["mtu"], 1500]), mac=mac)
    net1 = Net(rng, mac)
    h = session_history(rng, net1, cfg1["mtu"], n, p_mut=0.0, p_noise=0.0, p_misc=0.05, max_emit=1)
    return cfg1, [fr for fr in h if not (len(fr) >= 18 and fr[17] == W.OP_EMIT)]      # no Emits: their sleeps would move the shared clock


# ---------------------------------------------------------------- frame families

def f_discover(rng, net, m=None, tos=None, ack=None, bridged=None, gen=None, xid=None, nstations=None):
    i = rng.randrange(len(net.mappers)) if m is None else m
    real = net.mappers[i]
    bridged = (rng.random() < 0.3) if bridged is None else bridged
    eth = net.bridges[i] if bridged else real
    tos = rng.choice([0, 0, 0, 1]) if tos is None else tos
    if gen is None:
        prev = net.last_gen.get(tos)
        other = net.last_gen.get(1 - tos) if tos in (0, 1) else None
        r = rng.random()
        if prev is not None and r < 0.12:
            # a number related to the one this service used last: its byte-swapped image, a neighbour, one bit away
            gen = rng.choice([((prev & 0xFF) << 8) | (prev >> 8), (prev + 1) & 0xFFFF, (prev - 1) & 0xFFFF, prev ^ 0x8000, prev ^ 0x0001])
        elif other is not None and r < 0.18:
            gen = rng.choice([other, ((other & 0xFF) << 8) | (other >> 8)])
        else:
            gen = rng.choice(GENS + [rng.getrandbits(16)])
    net.last_gen[tos] = gen
    if xid is None:
        # a transaction id is just a number: it may repeat (a Discover is retransmitted with a growing station list) or
        # collide with the sequence number of the last command
        xid = net.last_seq if (net.last_seq is not None and rng.random() < 0.3) else rng.choice([0, 1, 0xFFFF, rng.getrandbits(16), rng.getrandbits(16)])
    net.last_seq = xid
    n = rng.choice([0, 1, 2, 5]) if nstations is None else nstations
    sts = [rng.choice(net.strangers) if rng.random() < 0.9 else edge_mac(rng) for _ in range(n)]
    ack = (rng.random() < 0.5) if ack is None else ack
    if ack and n:
        sts[rng.randrange(n)] = net.own
    if rng.random() < 0.06:
        # delivered as unicast (an access point converting multicast to unicast, or a tool addressing one station): the
        # responder does not look at a Discover's destination
        return W.discover(real, gen, xid, sts, tos=tos, eth_src=eth, eth_dst=net.own, real_dst=rng.choice([W.BCAST, net.own]))
    return W.discover(real, gen, xid, sts, tos=tos, eth_src=eth)


def f_hello(rng, net, tos=None):
    s = rng.choice(net.strangers)
    m = rng.choice(net.mappers)
    tlvs = bytes([1, 6]) + s + b"\x00"
    return W.hello(s, rng.choice(GENS + [rng.getrandbits(16)]), m, m, tlvs,
                   tos=rng.choice([0, 0, 1]) if tos is None else tos)


def f_emit(rng, net, m, seq=None, n=None, tos=0, bridged=False, kinds=(0, 1)):
    real = net.mappers[m]
    eth = net.bridges[m] if bridged else real
    n = rng.choice([1, 1, 2, 3, 5]) if n is None else n
    descs = []
    for _ in range(n):
        if descs and rng.random() < 0.2:
            # a sibling of the previous descriptor: identical but for one field, the addresses one byte apart
            k, p_, s_, d_ = descs[-1]
            which = rng.randrange(5)
            if which == 0:
                d_ = d_[:4] + bytes([d_[4] ^ rng.choice([1, 0x80, 0xFF]), d_[5] ^ rng.choice([0, 1, 0xFF])])
            elif which == 1:
                s_ = s_[:5] + bytes([s_[5] ^ rng.choice([1, 0x80])])
            elif which == 2:
                k = 1 - k if k in (0, 1) else k
            elif which == 3:
                d_ = bytes([d_[0] ^ 0x02]) + d_[1:]
            descs.append((k, p_, s_, d_))
            continue
        descs.append((rng.choice(kinds), rng.choice([0, 0, 1, 2, 255, rng.randint(0, 255)]),
                      rng.choice(net.strangers + [net.own, rand_mac(rng)]) if rng.random() < 0.85 else rng.choice([edge_mac(rng), real, net.own]),
                      rng.choice(net.strangers + [rand_mac(rng)]) if rng.random() < 0.85 else rng.choice([edge_mac(rng), real, net.own])))
    seq = rng.randint(1, 0xFFFF) if seq is None else seq
    net.last_seq = seq
    return W.emit(net.own, real, seq, descs, tos=tos, eth_src=eth), descs


def f_probe(rng, net, to_me=True, train=None, src=None, real_src=None):
    if src is None:
        r = rng.random()
        src = rand_mac(rng) if r < 0.85 else rng.choice([edge_mac(rng), net.own, related_mac(rng, net.own), related_mac(rng, net.strangers[0])])
    if real_src is None:
        real_src = rng.choice(net.strangers) if rng.random() < 0.92 else rng.choice([net.own, edge_mac(rng), src])
    train = (rng.random() < 0.4) if train is None else train
    if to_me:
        return W.probe(net.own, src, net.own, real_src, train=train)
    other = rng.choice(net.strangers)
    return W.probe(other, src, other, real_src, train=train)


def f_query(rng, net, m, seq=None, bridged=False, tos=0):
    real = net.mappers[m]
    seq = rng.randint(1, 0xFFFF) if seq is None else seq
    net.last_seq = seq
    return W.query(net.own, real, seq,
                   eth_src=net.bridges[m] if bridged else real, tos=tos)


def f_qlt(rng, net, m, seq=None, typ=None, off=None, bridged=False, tos=0):
    real = net.mappers[m]
    typ = rng.choice([0x0E, 0x0E, 0x11, 0x13, 0x18, 0x1A, rng.randint(0, 255)]) if typ is None else typ
    off = rng.choice([0, 0, 1, 100, 542, 1466, 0x7FFF, 0x8000, 0xFFFF, rng.randint(0, 0xFFFF)]) if off is None else off
    return W.qlt(net.own, real, rng.randint(1, 0xFFFF) if seq is None else seq, typ, off,
                 eth_src=net.bridges[m] if bridged else real, tos=tos)


def f_reset(rng, net, m=None, tos=0, bcast=True):
    real = net.mappers[rng.randrange(len(net.mappers)) if m is None else m]
    if bcast:
        return W.reset(real, tos=tos)
    return W.reset(real, tos=tos, real_dst=net.own, eth_dst=net.own)


def f_misc(rng, net, opcode=None, tos=None):
    """frames a responder must ignore or that exercise the (ToS, opcode) space"""
    opcode = rng.choice([W.OP_ACK, W.OP_QUERYRESP, W.OP_CHARGE, W.OP_FLAT, W.OP_QLTRESP, rng.randint(0, 255)]) \
        if opcode is None else opcode
    tos = rng.choice([0, 0, 1, 2, 3, rng.randint(0, 255)]) if tos is None else tos
    src = rng.choice(net.mappers + net.strangers)
    body = bytes(rng.getrandbits(8) for _ in range(rng.choice([0, 2, 4, 20, 60])))
    return W.base(rng.choice([net.own, W.BCAST]), src, tos, opcode, rng.choice([net.own, W.BCAST]), src,
                  rng.getrandbits(16)) + body


def f_noise(rng, mtu):
    n = rng.choice([0, 1, 13, 14, 17, 18, 31, 32, 33, 34, 35, 36, 46, 60, mtu - 1, mtu]) \
        if rng.random() < 0.5 else rng.randint(0, mtu)
    return bytes(rng.getrandbits(8) for _ in range(n))


def pick_mtu(rng, common=(576, 1500, 9216)):
    """MTU choice used by the per-request checks: common sizes, the dense boundary ranges, anything"""
    r = rng.random()
    if r < 0.35:
        return rng.choice(common)
    if r < 0.77:
        return rng.choice(MTUS_DENSE)
    if r < 0.8:
        return rng.choice(MTUS_HUGE)
    return rng.randint(576, 9216)


def cap_emit(mtu):
    return max(0, min((mtu - 34) // 14, 2500))      # what the workloads put into one Emit (the harness logs 3000 transmits per input)


def cap_emit_wire(mtu):
    """how many descriptors an Emit of this MTU can really carry (the monitors' bound)"""
    return max(0, (mtu - 34) // 14)


def cap_qresp(mtu):
    return max(0, (mtu - 34) // 20)


def cap_stations(mtu):
    return max(0, (mtu - 36) // 6)


def mutate(rng, raw, mtu, inflate_discover=True):
    """one of: truncate, inflate a wire counter, flip bits, randomise ToS/opcode, extend with junk"""
    b = bytearray(raw)
    r = rng.random()
    if r < 0.25 and len(b) > 0:
        cut = rng.choice([0, 1, 14, 17, 18, 30, 31, 32, 33, 34, 35, 36]) if rng.random() < 0.6 else rng.randint(0, len(b))
        return bytes(b[:min(cut, len(b))])
    if r < 0.55 and len(b) >= 36:
        op = b[17]
        if op == W.OP_DISCOVER:
            fits = cap_stations(mtu)
            if inflate_discover:
                struct.pack_into(">H", b, 34, rng.choice([0, 1, fits, fits + 1, 0xFFFF, 0x8000]) & 0xFFFF)
            else:
                struct.pack_into(">H", b, 34, rng.choice([0, 1, (len(b) - 36) // 6]))
        elif op == W.OP_EMIT:
            fits = cap_emit(mtu)
            struct.pack_into(">H", b, 32, rng.choice([0, 1, fits, fits + 1, 0xFFFF, 0x8000]) & 0xFFFF)
        elif op == W.OP_QLT:
            struct.pack_into(">H", b, 34, rng.choice([0, 1, 0x7FFF, 0x8000, 0xFFFF]))
        else:
            struct.pack_into(">H", b, 32, rng.choice([0, 1, 0xFFFF]))
        return bytes(b)
    if r < 0.7 and len(b) > 0:
        for _ in range(rng.randint(1, 4)):
            i = rng.randrange(len(b))
            b[i] ^= 1 << rng.randrange(8)
        return bytes(b)
    if r < 0.85 and len(b) >= 18:
        b[15] = rng.choice([0, 1, 2, 3, rng.randint(0, 255)])
        b[17] = rng.randint(0, 0x0E) if rng.random() < 0.7 else rng.randint(0, 255)
        return bytes(b)
    extra = min(mtu - len(b), rng.choice([1, 6, 14, 20, 200, mtu]))
    if extra > 0:
        b += bytes(rng.getrandbits(8) for _ in range(extra))
    return bytes(b[:mtu])


def session_history(rng, net, mtu, length, p_mut=0.15, p_noise=0.05, p_misc=0.1, max_emit=6,
                    allow_reset=True, probes_to_me=0.6, inflate_discover=True):
    """A mixture of valid mapper sessions, mutated frames and noise. Returns list of raw frames (<= mtu)."""
    out = []
    cur = None          # index of the mapper currently driving the session (generator's view only)
    while len(out) < length:
        r = rng.random()
        if r < p_noise:
            out.append(f_noise(rng, mtu))
            continue
        if r < p_noise + p_misc:
            out.append(f_misc(rng, net)[:mtu])
            continue
        k = rng.random()
        if cur is None or k < 0.18:
            m = rng.randrange(len(net.mappers)) if (cur is None or rng.random() < 0.3) else cur
            fr = f_discover(rng, net, m=m)
            if cur is None:
                cur = m
        elif k < 0.30:
            fr = f_hello(rng, net)
        elif k < 0.42:
            n = rng.choice([1, 2, 3, max_emit]) if rng.random() < 0.9 else min(cap_emit(mtu), rng.choice([cap_emit(mtu), 20]))
            fr, _ = f_emit(rng, net, cur, n=max(1, n), bridged=rng.random() < 0.2)
        elif k < 0.60:
            fr = f_probe(rng, net, to_me=rng.random() < probes_to_me)
        elif k < 0.64:
            # the mapper keeps the responder charged; sequence number 0 commands occur too (only sequenced ones are acknowledged)
            fr = W.simple(W.OP_CHARGE, net.own, net.mappers[cur], rng.choice([0, rng.randint(1, 0xFFFF)]),
                          eth_src=net.bridges[cur] if rng.random() < 0.2 else None)
        elif k < 0.66:
            fr, _ = f_emit(rng, net, cur, seq=0, n=rng.randint(1, 2))
        elif k < 0.74:
            fr = f_query(rng, net, cur, bridged=rng.random() < 0.2)
        elif k < 0.88:
            fr = f_qlt(rng, net, cur, bridged=rng.random() < 0.2, tos=rng.choice([0, 0, 0, 1]), seq=0 if rng.random() < 0.05 else None)
        elif allow_reset:
            fr = f_reset(rng, net, m=cur if rng.random() < 0.8 else None, tos=rng.choice([0, 0, 1]),
                         bcast=rng.random() < 0.7)
            if rng.random() < 0.8:
                cur = None
        else:
            fr = f_misc(rng, net)
        if rng.random() < p_mut:
            fr = mutate(rng, fr, mtu, inflate_discover)
        out.append(fr[:mtu])
    return out


# ---------------------------------------------------------------- observation churn (round 10)

CHURN_TARGETS = [0, 1, 2, 15, 16, 17, 31, 32, 33, 63, 64, 65, 127, 128, 129, 255, 256, 257, 511, 512, 513, 767, 768, 769, 1023, 1024]


def obs_churn(rng, net, m, mtu, mode=None, budget=2500, bridged=False, seq=None, discover_every=0.0, use_mtu=True):
    """A long history that moves the number of pending observations of the station to chosen counts and pokes it there.

    Whatever holds the observations between Queries (a list, an array that grows and shrinks, a ring, blocks, a hash) has
    its slips at particular fill levels and after particular orders of events, not at particular frames.  The history
    steers the pending count to powers of two, multiples of 256 and the 1024 bound (exactly, one below, one above) by
    adding distinct Probe/Train frames and by Queries whose capacity is set through the MTU at the time of the Query
    (`MTU` line before the Query: 34 + 20 n bytes carry n descriptors), and at every such level: a new observation, an
    exact duplicate of a pending one, a frame seen again after it has been reported (in a truncated and in a final
    QueryResp), a Query, optionally a Discover of the mapper, a Reset.  'sawtooth' never drains completely, so that more
    than 1024 observations pass through one session; 'flood' goes beyond the bound.

    The steering assumes min(capacity, pending) descriptors per QueryResp, newest first (what the pinned tree does); it is
    used for reach only - the monitors judge with their own models.

    -> (frames, {frame index: new MTU}, stats)"""
    own = net.own
    mode = mode or rng.choice(["boundaries", "boundaries", "sawtooth", "flood", "small"])
    frames, mtu_changes = [], {}
    seq = rng.randint(1, 40000) if seq is None else seq
    pend = []            # steering model: pending (eth src, real src), oldest first
    reported = []        # keys that left through a QueryResp since the last Reset (most recent last)
    serial = [0]
    reals = distinct_macs(rng, 4, avoid=[own])
    base_mtu = mtu
    stats = dict(levels=set(), passed=0, max_passed=0, queries=0, partial=0)
    tag = bytes([2, rng.randrange(256)])

    def nseq():
        nonlocal seq
        seq = seq + 1 if seq < 0xFFFF else 1
        return seq

    def new_key():
        serial[0] += 1
        return (tag + serial[0].to_bytes(4, "big"), reals[serial[0] % 3] if rng.random() < 0.9 else reals[3])

    def send(key, train=None):
        frames.append(W.probe(own, key[0], own, key[1], train=(rng.random() < 0.4) if train is None else train))
        if key not in pend and len(pend) < 1024:
            pend.append(key)
            stats["passed"] += 1
            stats["max_passed"] = max(stats["max_passed"], stats["passed"])

    def set_mtu(v):
        nonlocal mtu
        if v != mtu and use_mtu:
            mtu_changes[len(frames)] = v
            mtu = v

    def query(n=None):
        """one Query; n: set the MTU so that exactly n descriptors fit"""
        if n is not None:
            n = max(1, min(n, 459))
            set_mtu((68 + rng.randint(0, 5)) if n == 1 else 34 + 20 * n + rng.randint(0, 19))
        frames.append(f_query(rng, net, m, seq=nseq(), bridged=bridged))
        stats["queries"] += 1
        k = min(cap_qresp(mtu), len(pend))
        if k:
            reported.extend(pend[len(pend) - k:])
            del pend[len(pend) - k:]
            del reported[:-2000]
        if pend:
            stats["partial"] += 1
        else:
            stats["passed"] = 0

    def move_to(t):
        while len(pend) < t and len(frames) < budget:
            r = rng.random()
            if r < 0.06 and pend:
                send(rng.choice([pend[-1], pend[0], rng.choice(pend)]))         # exact duplicate of something pending
            elif r < 0.10 and reported:
                send(rng.choice([reported[-1], reported[0], rng.choice(reported)]))   # seen again after it was reported
            else:
                send(new_key())
        while len(pend) > t and len(frames) < budget:
            d = len(pend) - t
            if rng.random() < 0.75:
                query(d)
            else:
                set_mtu(rng.choice([base_mtu, 576, 1500]))
                query()
        stats["levels"].add(len(pend))

    def poke():
        for _ in range(rng.randint(1, 4)):
            r = rng.random()
            if r < 0.3:
                send(new_key())
            elif r < 0.45 and pend:
                send(rng.choice([pend[-1], pend[0], rng.choice(pend)]))
            elif r < 0.65 and reported:
                send(rng.choice([reported[-1], reported[-min(len(reported), 2)], rng.choice(reported)]))
            elif r < 0.8:
                query(rng.choice([None, 1, 2, max(1, len(pend) // 2), max(1, len(pend) - 1)]))
            elif r < 0.8 + discover_every:
                frames.append(f_discover(rng, net, m=m, tos=0, bridged=bridged))
            else:
                send(new_key())
                send(pend[-1] if pend else new_key())

    frames.append(f_discover(rng, net, m=m, tos=0, bridged=bridged))
    if mode == "small":
        targets = [rng.choice(CHURN_TARGETS[:12]) for _ in range(rng.randint(6, 14))]
    elif mode == "boundaries":
        targets = [rng.choice(CHURN_TARGETS) for _ in range(rng.randint(4, 10))]
    elif mode == "sawtooth":
        targets = []
        for _ in range(rng.randint(3, 6)):
            targets += [rng.choice([300, 520, 700, 900, 1000, 1024]), rng.choice([1, 5, 100, 256, 400, 512])]
    else:
        targets = [1024, rng.choice([1023, 1000, 768, 512, 1]), 1024, rng.choice([0, 1, 256])]
    for t in targets:
        if len(frames) >= budget:
            break
        move_to(t)
        if mode == "flood" and t == 1024:
            for _ in range(rng.randint(1, 5)):
                key = new_key()
                frames.append(W.probe(own, key[0], own, key[1]))      # beyond the bound
                if rng.random() < 0.5:
                    frames.append(frames[-1])
            if discover_every and rng.random() < 0.8:
                frames.append(f_discover(rng, net, m=m, tos=0, bridged=bridged))
        poke()
        if rng.random() < 0.12:
            frames.append(f_reset(rng, net, m=m, tos=0))
            pend.clear()
            reported.clear()
            stats["passed"] = 0
            frames.append(f_discover(rng, net, m=m, tos=0, bridged=bridged))
            if rng.random() < 0.5 and frames:
                send(new_key())
    # deliver what is left (bounded), so that every observation has had its chance to be reported
    set_mtu(rng.choice([base_mtu, 1500, 9000]))
    for _ in range(min(60, len(pend) // max(1, cap_qresp(mtu)) + 2)):
        query()
    stats["levels"] = sorted(stats["levels"])
    return frames, mtu_changes, stats
