"""Byte-level LLTD codec, written from MS-LLTD offsets (DESIGN.md A.1).

Deliberately independent of the repository's structs: a change to a struct
layout, a pragma pack or an endianness helper shows up as wrong bytes on the
wire instead of being silently followed.
"""
import struct

ETHERTYPE = b"\x88\xd9"
BCAST = b"\xff" * 6

OP_DISCOVER, OP_HELLO, OP_EMIT, OP_TRAIN, OP_PROBE, OP_ACK, OP_QUERY = 0, 1, 2, 3, 4, 5, 6
OP_QUERYRESP, OP_RESET, OP_CHARGE, OP_FLAT, OP_QLT, OP_QLTRESP = 7, 8, 9, 0x0A, 0x0B, 0x0C
OPNAMES = {0: "Discover", 1: "Hello", 2: "Emit", 3: "Train", 4: "Probe", 5: "ACK", 6: "Query",
           7: "QueryResp", 8: "Reset", 9: "Charge", 10: "Flat", 11: "QueryLargeTlv",
           12: "QueryLargeTlvResp"}
RESPONDER_OPCODES = {OP_HELLO, OP_TRAIN, OP_PROBE, OP_ACK, OP_QUERYRESP, OP_QLTRESP}

TLV_HOSTID, TLV_CHAR, TLV_IFTYPE, TLV_WIFIMODE, TLV_BSSID, TLV_SSID = 1, 2, 3, 4, 5, 6
TLV_IPV4, TLV_IPV6, TLV_MAXRATE, TLV_PERF, TLV_LINKSPEED, TLV_RSSI = 7, 8, 9, 0x0A, 0x0C, 0x0D
TLV_ICON, TLV_HOSTNAME, TLV_URL, TLV_FNAME, TLV_UUID, TLV_HWID, TLV_QOS = 0x0E, 0x0F, 0x10, 0x11, 0x12, 0x13, 0x14

# legal value lengths per MS-LLTD 2.2.2 for properties that may appear in a Hello
# (min, max); large properties appear with length 0 (fetched via QueryLargeTlv)
TLV_LEGAL_LEN = {
    TLV_HOSTID: (6, 6), TLV_CHAR: (4, 4), TLV_IFTYPE: (4, 4), TLV_WIFIMODE: (1, 1),
    TLV_BSSID: (6, 6), TLV_SSID: (0, 32), TLV_IPV4: (4, 4), TLV_IPV6: (16, 16),
    TLV_MAXRATE: (2, 2), TLV_PERF: (8, 8), TLV_LINKSPEED: (4, 4), TLV_RSSI: (4, 4),
    TLV_ICON: (0, 0), TLV_HOSTNAME: (0, 32), TLV_URL: (0, 64), TLV_FNAME: (0, 0),
    TLV_UUID: (16, 16), TLV_HWID: (0, 64), TLV_QOS: (4, 4), 0x15: (1, 1), 0x16: (0, 0),
    0x18: (0, 0), 0x19: (2, 2), 0x1A: (0, 0), 0x1B: (0, 36), 0x1C: (0, 0),
}


def hx(b):
    return bytes(b).hex()


def mac(s):
    """'02:aa:..' or hex string or bytes -> 6 bytes"""
    if isinstance(s, (bytes, bytearray)):
        assert len(s) == 6
        return bytes(s)
    return bytes.fromhex(s.replace(":", ""))


def base(eth_dst, eth_src, tos, opcode, real_dst, real_src, seq, version=1, reserved=0):
    return (eth_dst + eth_src + ETHERTYPE + bytes([version & 255, tos & 255, reserved & 255, opcode & 255])
            + real_dst + real_src + struct.pack(">H", seq & 0xFFFF))


def discover(real_src, gen, xid, stations=(), tos=0, eth_src=None, count=None,
             eth_dst=BCAST, real_dst=BCAST):
    eth_src = real_src if eth_src is None else eth_src
    n = len(stations) if count is None else count
    return (base(eth_dst, eth_src, tos, OP_DISCOVER, real_dst, real_src, xid)
            + struct.pack(">HH", gen & 0xFFFF, n & 0xFFFF) + b"".join(stations))


def hello(real_src, gen, cur_mapper, app_mapper, tlvs=b"\x00", tos=0, eth_src=None, seq=0):
    eth_src = real_src if eth_src is None else eth_src
    return (base(BCAST, eth_src, tos, OP_HELLO, BCAST, real_src, seq)
            + struct.pack(">H", gen & 0xFFFF) + cur_mapper + app_mapper + tlvs)


def emit(own, mapper_real, seq, descs, tos=0, eth_src=None, count=None):
    """descs: list of (kind, pause, src, dst)"""
    eth_src = mapper_real if eth_src is None else eth_src
    n = len(descs) if count is None else count
    body = b"".join(bytes([k & 255, p & 255]) + s + d for (k, p, s, d) in descs)
    return base(own, eth_src, tos, OP_EMIT, own, mapper_real, seq) + struct.pack(">H", n & 0xFFFF) + body


def probe(eth_dst, eth_src, real_dst, real_src, train=False, tos=0, seq=0):
    return base(eth_dst, eth_src, tos, OP_TRAIN if train else OP_PROBE, real_dst, real_src, seq)


def simple(opcode, own, mapper_real, seq=0, tos=0, eth_src=None, eth_dst=None, real_dst=None):
    eth_src = mapper_real if eth_src is None else eth_src
    eth_dst = own if eth_dst is None else eth_dst
    real_dst = own if real_dst is None else real_dst
    return base(eth_dst, eth_src, tos, opcode, real_dst, mapper_real, seq)


def query(own, mapper_real, seq, **kw):
    return simple(OP_QUERY, own, mapper_real, seq, **kw)


def reset(mapper_real, tos=0, eth_src=None, real_dst=BCAST, eth_dst=BCAST, seq=0):
    eth_src = mapper_real if eth_src is None else eth_src
    return base(eth_dst, eth_src, tos, OP_RESET, real_dst, mapper_real, seq)


def qlt(own, mapper_real, seq, tlv_type, offset, tos=0, eth_src=None, reserved=0):
    eth_src = mapper_real if eth_src is None else eth_src
    return (base(own, eth_src, tos, OP_QLT, own, mapper_real, seq)
            + bytes([tlv_type & 255, reserved & 255]) + struct.pack(">H", offset & 0xFFFF))


# ---------------------------------------------------------------- decoding

class Frame:
    __slots__ = ("raw", "eth_dst", "eth_src", "ethertype", "version", "tos", "reserved",
                 "opcode", "real_dst", "real_src", "seq")

    def __init__(self, raw):
        self.raw = raw
        self.eth_dst = raw[0:6]
        self.eth_src = raw[6:12]
        self.ethertype = raw[12:14]
        self.version, self.tos, self.reserved, self.opcode = raw[14], raw[15], raw[16], raw[17]
        self.real_dst = raw[18:24]
        self.real_src = raw[24:30]
        self.seq = struct.unpack(">H", raw[30:32])[0]

    def __repr__(self):
        return "<%s tos=%d seq=%d len=%d>" % (OPNAMES.get(self.opcode, hex(self.opcode)), self.tos, self.seq, len(self.raw))


def decode(raw):
    if len(raw) < 32:
        return None
    return Frame(raw)


def parse_tlvs(data):
    """-> (list of (type, value), end_index or None, error or None). end_index is the index of the end marker."""
    out = []
    i = 0
    n = len(data)
    while True:
        if i >= n:
            return out, None, "no end marker"
        t = data[i]
        if t == 0:
            return out, i, None
        if i + 1 >= n:
            return out, None, "truncated header"
        ln = data[i + 1]
        if i + 2 + ln > n:
            return out, None, "value overruns frame"
        out.append((t, data[i + 2:i + 2 + ln]))
        i += 2 + ln


def hello_fields(raw):
    gen = struct.unpack(">H", raw[32:34])[0]
    return gen, raw[34:40], raw[40:46]


def queryresp_fields(raw):
    w = struct.unpack(">H", raw[32:34])[0]
    more, err, n = bool(w & 0x8000), bool(w & 0x4000), w & 0x3FFF
    descs = []
    for k in range(n):
        o = 34 + 20 * k
        if o + 20 > len(raw):
            break
        kind = struct.unpack(">H", raw[o:o + 2])[0]
        descs.append((kind, raw[o + 2:o + 8], raw[o + 8:o + 14], raw[o + 14:o + 20]))
    return more, err, n, descs


def qltresp_fields(raw):
    w = struct.unpack(">H", raw[32:34])[0]
    return bool(w & 0x8000), w & 0x7FFF, raw[34:]


# ---------------------------------------------------------------- shared PRNG (== harness/vport.c)

def xorshift32(s):
    x = s if s else 0x9E3779B9
    x ^= (x << 13) & 0xFFFFFFFF
    x ^= x >> 17
    x ^= (x << 5) & 0xFFFFFFFF
    return x & 0xFFFFFFFF


def fill_stream(n, seed):
    s = (seed if seed else 1) & 0xFFFFFFFF
    out = bytearray(n)
    M = 0xFFFFFFFF
    for i in range(n):
        if not s:
            s = 0x9E3779B9
        s ^= (s << 13) & M
        s ^= s >> 17
        s ^= (s << 5) & M
        out[i] = (s >> 11) & 0xFF
    return bytes(out)
