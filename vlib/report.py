"""Verdict plumbing: violation keys, known findings, replay files, evidence (DESIGN.md 2.6, 2.7, A.4)."""
import hashlib
import json
import os
import re
import time

VERIF = os.path.dirname(os.path.dirname(os.path.abspath(__file__)))
KF_PATH = os.path.join(VERIF, "known_findings.json")

EXIT_HELD, EXIT_VIOLATION, EXIT_INCONCLUSIVE = 0, 1, 2


def load_known():
    try:
        with open(KF_PATH) as f:
            return json.load(f)
    except FileNotFoundError:
        return []


class Report:
    def __init__(self, pid, tier, seed):
        self.pid = pid
        self.tier = tier
        self.seed = seed
        self.t0 = time.time()
        self.viol = {}           # key -> dict(count, witness text, replay text)
        self.counters = {}
        self.samples = []
        self.distinct = set()
        self.distinct_extra = 0   # distinct non-trivial cases counted by an online (C) oracle
        self.evaluations = 0
        self.rule = ""
        self.exhaustive = False
        self.reach = {}          # name -> (count, required)
        self.assumptions = []
        self.notes = []
        self.inconclusive = []
        self.level = "exploration"
        self.extra = {}

    # -- observations
    def count(self, name, n=1):
        self.counters[name] = self.counters.get(name, 0) + n

    def nontrivial(self, canonical):
        """register one distinct non-trivial case (hash of its canonical form)"""
        if not isinstance(canonical, (bytes, bytearray)):
            canonical = repr(canonical).encode()
        self.distinct.add(hashlib.blake2b(canonical, digest_size=8).digest())

    def sample(self, obj, cap=6):
        if len(self.samples) < cap:
            self.samples.append(obj)

    def need(self, name, count, required=1):
        """reach obligation: the run must have observed `name` at least `required` times"""
        c0 = self.reach.get(name, (0, required))[0]
        self.reach[name] = (c0 + count, required)

    # -- violations
    def violation(self, key, witness, replay=None):
        v = self.viol.get(key)
        if v is None:
            self.viol[key] = dict(count=1, witness=witness, replay=replay)
        else:
            v["count"] += 1

    def merge(self, other):
        for k, v in other.viol.items():
            if k in self.viol:
                self.viol[k]["count"] += v["count"]
            else:
                self.viol[k] = v
        for k, v in other.counters.items():
            self.counters[k] = self.counters.get(k, 0) + v
        for s in other.samples:
            self.sample(s)
        self.distinct |= other.distinct
        self.distinct_extra += other.distinct_extra
        self.evaluations += other.evaluations
        for k, (c, r) in other.reach.items():
            c0 = self.reach.get(k, (0, r))[0]
            self.reach[k] = (c0 + c, r)
        self.inconclusive += other.inconclusive
        self.notes += other.notes
        for k, v in other.extra.items():
            self.extra.setdefault(k, v)

    # -- finishing
    def finish(self):
        """print verdict lines, write replays + evidence, return exit code"""
        known = [k for k in load_known() if k.get("property") == self.pid]
        open_keys = {k["key"]: k for k in known if k.get("status") == "open"}
        unexpected = 0
        known_hit = 0
        rdir = os.path.join(VERIF, "replays", self.pid)
        for key in sorted(self.viol):
            v = self.viol[key]
            if key in open_keys:
                known_hit += 1
                print("KNOWN-FINDING: property=%s %s [key=%s, seen %d time(s) in this run]"
                      % (self.pid, open_keys[key].get("what", ""), key, v["count"]))
                continue
            unexpected += 1
            os.makedirs(rdir, exist_ok=True)
            fn = re.sub(r"[^A-Za-z0-9_.=-]+", "_", key)[:120] + ".scn"
            path = os.path.join(rdir, fn)
            with open(path, "w") as f:
                f.write("# property=%s key=%s seed=%d tier=%s count=%d\n" % (self.pid, key, self.seed, self.tier, v["count"]))
                for ln in str(v["witness"]).split("\n"):
                    f.write("# %s\n" % ln)
                if v.get("replay"):
                    f.write(v["replay"])
            if unexpected <= 20:
                print("VIOLATION property=%s replay=%s" % (self.pid, path))
                print("  key=%s count=%d" % (key, v["count"]))
                for ln in str(v["witness"]).split("\n")[:12]:
                    print("  | " + ln)
        if not self.samples:
            self.inconclusive.append("the run recorded no sample case (evidence would be empty)")
        missed = [(k, c, r) for k, (c, r) in self.reach.items() if c < r]
        wall = time.time() - self.t0
        cov = dict(evaluations=int(self.evaluations), distinct_nontrivial=len(self.distinct) + self.distinct_extra,
                   rule=self.rule, samples=self.samples[:8], exhaustive=bool(self.exhaustive),
                   observed=self.counters,
                   reach_obligations={k: dict(seen=c, required=r) for k, (c, r) in self.reach.items()},
                   violation_keys={k: v["count"] for k, v in self.viol.items()},
                   known_findings_matched=known_hit, inconclusive=self.inconclusive[:20], notes=self.notes[:20])
        cov.update(self.extra)
        ev = dict(property_id=self.pid, tier=self.tier, seed=int(self.seed), level=self.level,
                  coverage=cov, assumptions=self.assumptions, wall_s=round(wall, 2),
                  violations=unexpected)
        # evidence belongs to runs against /repo itself; runs against a scratch tree (VERIF_REPO, used to try seeded
        # changes) must not overwrite it
        alt = os.environ.get("VERIF_REPO") not in (None, "", "/repo")
        edir = os.path.join(VERIF, ".work", "evidence-scratch") if alt else os.path.join(VERIF, "evidence")
        os.makedirs(edir, exist_ok=True)
        with open(os.path.join(edir, self.pid + ".json"), "w") as f:
            json.dump(ev, f, indent=1, default=_js)
            f.write("\n")
        summary = "%s %s seed=%d: %d evaluations, %d distinct non-trivial, %d violation key(s) (%d known), %.1fs" % (
            self.pid, self.tier, self.seed, self.evaluations, len(self.distinct) + self.distinct_extra, len(self.viol), known_hit, wall)
        print(summary)
        if unexpected:
            return EXIT_VIOLATION
        if missed or self.inconclusive:
            for k, c, r in missed:
                print("INCONCLUSIVE property=%s reach obligation '%s' seen %d < required %d" % (self.pid, k, c, r))
            for s in self.inconclusive[:10]:
                print("INCONCLUSIVE property=%s %s" % (self.pid, s))
            return EXIT_INCONCLUSIVE
        return EXIT_HELD


def _js(o):
    if isinstance(o, (bytes, bytearray)):
        return bytes(o).hex()
    if isinstance(o, set):
        return sorted(o)
    return str(o)
