"""C06, Linux layer: an Emit through the real os/linux/lltd_port.c, under a virtual CLOCK_MONOTONIC.

The core hands every descriptor's pause to lltd_port_sleep_ms; whether the pause is then really waited is the port's
business.  The harness replaces the C library's sleep and clock calls by a virtual clock that keeps their semantics (a
relative sleep advances it, an absolute one advances it to the deadline, an invalid timespec is refused with EINVAL and
advances nothing) and stamps every transmit.  Each record drives a Discover and then a three-descriptor Emit at a chosen
phase of the clock's second; the monitor judges the transmit times.
"""
import os
import subprocess

from .. import gen as G
from .. import harness as H
from . import c04_linux as L


def run(ctx):
    rep = ctx.report
    out = L.build(ctx)
    rng = G.rng_for(ctx.seed, "C06L", 0)
    n = ctx.n(3000, 100000)
    base = L.records(ctx, 50)
    lines = []
    for i in range(n):
        x = dict(base[i % len(base)])
        x["mac"] = G.rand_mac(rng)
        lines.append(L.record_line(x))
    env = dict(os.environ)
    env.update(H.SAN_ENV)
    p = subprocess.run([out], input="\n".join(lines) + "\n", stdout=subprocess.PIPE, stderr=subprocess.PIPE, text=True, env=env,
                       timeout=3600)
    for key, txt in H.sanitizer_findings(p.stderr):
        rep.violation("C06:linux:" + key, txt[:1500], replay="# vh_linuxport, %d records\n" % n)
    if p.returncode != 0:
        rep.inconclusive.append("vh_linuxport exited %d: %s" % (p.returncode, p.stderr[-500:]))
    judged = carry = 0
    for ln in p.stdout.split("\n"):
        if not ln.startswith("EMIT "):
            continue
        parts = ln.split(" ")
        i = int(parts[1])
        kv = dict(x.split("=", 1) for x in parts[2:])
        phase = int(kv["phase_us"])
        pauses = [int(v) for v in kv["pauses"].split(",")]
        sends = [(int(a), int(b)) for a, b in (v.split(":") for v in kv["at_us"].split(",") if v)]
        rep.evaluations += 1
        judged += 1

        def bad(key, msg):
            rep.violation("C06:linux:" + key, "record %d (%s): Emit with pauses %s ms at %d us past the second: %s; transmits (us:opcode) %s"
                          % (i, lines[i], pauses, phase, msg, kv["at_us"]),
                          replay="# vh_linuxport record %d:\n# %s\n" % (i, lines[i]))
        want_ops = [3, 4, 3, 5]            # descriptor kinds 0,1,0 -> Train, Probe, Train; then the ACK
        if [o for _, o in sends] != want_ops:
            bad("frames-differ", "expected opcodes %s" % want_ops)
            continue
        due = 0
        for k in range(3):
            due += pauses[k] * 1000
            if sends[k][0] < due:
                bad("pause-not-waited", "frame %d left %d us after the Emit arrived, its pauses add up to %d us" % (k, sends[k][0], due))
                break
        if any(phase + 1000 * sum(pauses[:k + 1]) >= 1000000 for k in range(3)):
            carry += 1
        rep.nontrivial(("linux-emit", phase // 50000, tuple(x // 32 for x in pauses)))
    rep.count("linux_emits_judged", judged)
    rep.count("linux_emits_with_a_pause_ending_in_the_next_second", carry)
    rep.need("linux_emits_judged", judged, n)
    rep.need("linux_emits_with_a_pause_ending_in_the_next_second", carry, n // 10)
