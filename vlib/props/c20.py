"""C20 - the protocol core reaches the outside world only through the port API."""
import os
import re
import subprocess
from concurrent.futures import ThreadPoolExecutor

from .. import harness as H
from . import c01

MEMFUNCS = {"memcpy", "memset", "memmove", "memcmp"}
# what a C compiler may emit by itself: libgcc/compiler-rt integer helpers and the stack protector.
# Loader/libc services (__tls_get_addr, __cxa_*, _ITM_*, ...) are NOT in this set: they need a hosted runtime.
COMPILER_RT = re.compile(r"^(__stack_chk_fail|__stack_chk_guard|__aeabi_(u?l?div(mod)?|u?idiv(mod)?|lmul|ll?s[lr]|lasr|l?cmp|ul?cmp|mem(cpy|move|set|clr)[48]?)|__(u?div|u?mod|mul|ashl|ashr|lshr|cmp|ucmp|neg|ffs|clz|ctz|popcount|parity|bswap)[sdt]i[234]?"
                         r"|__udivmoddi4|__divmoddi4|_GLOBAL_OFFSET_TABLE_|__chkstk|___chkstk_ms|__security_cookie|__security_check_cookie|__GSHandlerCheck)$")


def port_functions():
    txt = open(os.path.join(H.REPO, "lltdResponder/lltdPort.h")).read()
    return set(re.findall(r"\b(lltd_port_\w+)\s*\(", txt))


def sh(cmd, **kw):
    return subprocess.run(cmd, stdout=subprocess.PIPE, stderr=subprocess.STDOUT, text=True, **kw)


def run(ctx):
    rep = ctx.report
    rep.rule = ("the core alone is built as libcore-<cfg>.so with -nostdlib for {gcc, clang} x {-O0, -O2, -Os} x {hosted, "
                "-ffreestanding -nostdinc} plus -O2 with the usual hardening defines (-D_FORTIFY_SOURCE=2 -fstack-protector-strong -DNDEBUG); a scenario corpus runs in a harness that exports the port, under LD_BIND_NOW=1 "
                "LD_DEBUG=bindings: every binding the loader makes from libcore to another object must be a function declared in "
                "lltdPort.h (or memcpy/memset/memmove/memcmp/compiler runtime); event logs must be identical across the matrix; a "
                "silent arena-backed port runs the core between two marker system calls under strace and nothing may appear in "
                "between; the same drive linked statically into a port without any C runtime (own _start, raw system calls, nobody walks "
                ".init_array) must report the same frames as the hosted run. distinct_nontrivial = distinct (configuration, bound symbol) pairs observed plus bracketed runs")
    rep.assumptions = ["the core is built without LLTD_VERIF_HOOKS here: the property is about the unhooked core",
                       "the lexical clause (no OS macro/header) is the repository's own lint script, run from the working tree and "
                       "reported separately: that part is not runtime monitoring (auxiliary)",
                       "nm -u over the relocatably linked core objects is an auxiliary static cross-check of the loader's bindings",
                       "the cross-target matrix (i386, ARMv6-M, ARMv5TE, RV32IMC, MIPS) is compile-only: undefined symbols of the "
                       "freestanding objects are inspected, nothing is executed for those targets"]
    allowed = port_functions()
    rep.extra["port_functions_declared"] = len(allowed)
    d = ctx.work.sub("matrix")
    core = [os.path.join(H.REPO, c) for c in H.CORE]
    inc = "-I" + os.path.join(H.REPO, "lltdResponder")
    gcc_inc = sh(["gcc", "-print-file-name=include"]).stdout.strip()
    clang_inc = os.path.join(sh(["clang", "-print-resource-dir"]).stdout.strip(), "include")
    cfgs = []
    for cc in ("gcc", "clang"):
        for opt in ("-O0", "-O2", "-Os"):
            for mode in ("hosted", "freestanding"):
                cfgs.append((cc, opt, mode))
        # what distribution packagers put on the command line
        cfgs.append((cc, "-O2", "hardened"))
        cfgs.append((cc, "-O2", "distro"))         # ... with exception tables for C as well (Fedora / RHEL %{optflags})
    cfgs.append(("clang", "-Oz", "hosted"))        # clang's size level rewrites memcmp()==0 into bcmp() when it may assume a C library
    cfgs.append(("gcc", "-O3", "hosted"))
    scns = c01.make_scenarios(ctx, ctx.n(320, 4000))
    scns = [s for s in scns if s.meta["fam"] not in ("esp32", "dse-inflated", "flow", "mutated")]
    for s in scns:
        # no esp32 entry (not part of the core); the session-event classifier is driven by the bracket harness
        # with well-formed lists only (its over-long station walk is C01's recorded finding)
        s.lines = [("F" + ln[1:]) if ln.startswith("E ") else ln for ln in s.lines if not ln.startswith("X ")]

    bares = {}

    def build_cfg(cfg):
        cc, opt, mode = cfg
        name = "%s%s-%s" % (cc, opt, mode)
        lib = os.path.join(d, "libcore-%s.so" % name)
        flags = [opt, "-g", "-fPIC", "-shared", "-nostdlib", "-w", inc]
        hard = ["-D_FORTIFY_SOURCE=2", "-fstack-protector-strong", "-DNDEBUG", "-D_GNU_SOURCE"] if mode in ("hardened", "distro") else []
        if mode == "distro":
            hard += ["-fexceptions", "-fasynchronous-unwind-tables"]
        flags += hard
        if mode == "freestanding":
            flags += ["-ffreestanding", "-nostdinc", "-isystem", gcc_inc if cc == "gcc" else clang_inc]
        r = sh([cc] + flags + ["-o", lib] + core)
        if r.returncode != 0:
            return cfg, None, None, None, "libcore build failed:\n" + r.stdout[-1500:]
        # relocatable link + nm -u (auxiliary)
        objs = []
        for c in core:
            o = os.path.join(d, "%s-%s.o" % (name, os.path.basename(c)))
            cflags = [opt, "-c", "-w", inc] + hard + (["-ffreestanding", "-nostdinc", "-isystem", gcc_inc if cc == "gcc" else clang_inc]
                                                      if mode == "freestanding" else [])
            r2 = sh([cc] + cflags + ["-o", o, c])
            if r2.returncode == 0:
                objs.append(o)
        und = None
        bare = None
        if len(objs) == len(core):
            rel = os.path.join(d, "%s-core.o" % name)
            if sh(["ld", "-r", "-o", rel] + objs).returncode == 0:
                und = set(x.split()[-1] for x in sh(["nm", "-u", rel]).stdout.split("\n") if x.strip())
                tls = [ln.split()[-1] for ln in sh(["readelf", "-sW", rel]).stdout.split("\n") if " TLS " in ln]
                if tls:
                    und |= set("thread-local-object:" + t for t in tls)
                # sections that only a C runtime's start-up code (or a loader) would act on
                for sec in re.findall(r"\s(\.(?:preinit_array|init_array|fini_array|ctors|dtors))\S*\s", sh(["readelf", "-SW", rel]).stdout):
                    und.add("startup-section:" + sec)
                # the same core in a port without any C runtime: own _start, raw system calls, nobody runs constructors
                if os.uname().machine == "x86_64" and mode not in ("hardened", "distro"):       # (a stack protector needs the runtime's canary set-up)
                    bare = os.path.join(d, "bare-%s" % name)
                    rb = sh(["gcc", "-O1", "-w", "-fno-builtin", "-fno-tree-loop-distribute-patterns", "-fno-stack-protector", "-ffreestanding",
                             "-nostdlib", "-nostartfiles", "-static", "-DVH_BARE", inc, "-o", bare, os.path.join(H.HARN, "vh_bracket.c"), rel])
                    if rb.returncode != 0:
                        bare = "link failed: " + rb.stdout[-600:]
        exe = os.path.join(d, "vh-%s" % name)
        hs = [os.path.join(H.HARN, x) for x in ("vh_frames.c", "vh_flow.c", "vport.c")]
        r = sh(["gcc", "-O1", "-g", "-w", "-rdynamic", inc, "-I" + H.HARN, "-o", exe] + hs + [lib, "-Wl,-rpath," + d])
        bares[name] = bare
        if r.returncode != 0:
            return cfg, lib, None, und, "harness link against libcore failed:\n" + r.stdout[-1500:]
        br = os.path.join(d, "br-%s" % name)
        r = sh(["gcc", "-O1", "-g", "-w", "-rdynamic", inc, "-o", br, os.path.join(H.HARN, "vh_bracket.c"), lib, "-Wl,-rpath," + d])
        if r.returncode != 0:
            return cfg, lib, exe, und, "bracket harness link failed:\n" + r.stdout[-1500:]
        return cfg, lib, exe, und, None

    with ThreadPoolExecutor(max_workers=H.NCPU) as ex:
        built = list(ex.map(build_cfg, cfgs))

    scn_path = os.path.join(d, "corpus.scn")
    with open(scn_path, "w") as f:
        for s in scns:
            f.write(s.text())
    logs = {}
    sent_ref = None
    bare_out = {}

    def run_cfg(b):
        cfg, lib, exe, und, err = b
        name = "%s%s-%s" % cfg
        if err or not exe:
            return cfg, None, None, None, None
        env = dict(os.environ, LD_BIND_NOW="1", LD_DEBUG="bindings", LD_DEBUG_OUTPUT=os.path.join(d, "ldd-" + name))
        log = os.path.join(d, "log-%s.txt" % name)
        p = subprocess.run([exe, scn_path, log, "--cpu-limit", "60"], env=env, stdout=subprocess.DEVNULL, stderr=subprocess.PIPE, text=True)
        binds = []
        for fn in os.listdir(d):
            if fn.startswith("ldd-" + name + "."):
                for ln in open(os.path.join(d, fn), errors="replace"):
                    m = re.search(r"binding file (\S+) \[\d+\] to (\S+) \[\d+\]: \w+ symbol `([^']+)'", ln)
                    if m and "libcore-" in m.group(1):
                        binds.append((os.path.basename(m.group(2)), m.group(3)))
        # normalised event log
        norm = []
        if os.path.exists(log):
            skip = 0
            for ln in open(log, "rb"):
                if skip > 0:
                    skip -= len(ln)
                    continue
                ln = ln.decode("utf-8", "replace")
                if ln.startswith("E "):          # stderr of a child: paths differ per binary, not part of the trace
                    skip = int(ln[2:]) + 1
                    norm.append("E\n")
                    continue
                if ln.startswith("X "):
                    ln = " ".join(ln.split(" ")[:4]) + "\n"
                norm.append(ln)
        # syscall bracket
        br = os.path.join(d, "br-%s" % name)
        so = os.path.join(d, "strace-%s.txt" % name)
        sp = subprocess.run(["strace", "-f", "-o", so, br], stdout=subprocess.PIPE, stderr=subprocess.PIPE, text=True)
        inside = []
        state = 0
        if os.path.exists(so):
            for ln in open(so, errors="replace"):
                if 'write(999, "BEGIN"' in ln:
                    state = 1
                    continue
                if 'write(999, "END"' in ln:
                    state = 2
                    continue
                if state == 1:
                    inside.append(ln.strip())
        bare = bares.get(name)
        if bare and os.path.isfile(bare):
            try:
                bp = subprocess.run([bare], stdout=subprocess.PIPE, stderr=subprocess.PIPE, text=True, timeout=60)
                bare_out[name] = (bp.returncode, bp.stdout.strip())
            except subprocess.TimeoutExpired:
                bare_out[name] = ("timeout", "")
        elif bare:
            bare_out[name] = ("nolink", bare)
        return cfg, binds, (p.returncode, "".join(norm)), (sp.returncode, sp.stdout.strip(), state, inside), und

    with ThreadPoolExecutor(max_workers=H.NCPU) as ex:
        ran = list(ex.map(run_cfg, built))

    ref_log = None
    for (cfg, lib, exe, und0, err), (_, binds, lg, br, und) in zip(built, ran):
        name = "%s%s-%s" % cfg
        rep.evaluations += 1
        if err:
            kind = "freestanding-build-fails" if cfg[2] == "freestanding" and "libcore build failed" in err else "build-fails"
            rep.violation("C20:%s:%s" % (kind, cfg[0]), "configuration %s: %s" % (name, err))
            continue
        # loader bindings
        syms = set()
        for target, sym in binds:
            if target.startswith("libcore-"):
                continue                    # the core binding to itself
            syms.add(sym)
            ok = (sym in allowed and target.startswith("vh-")) or sym in MEMFUNCS or COMPILER_RT.match(sym)
            if not ok:
                rep.violation("C20:core-binds-to-foreign-symbol:%s" % sym,
                              "configuration %s: the dynamic loader bound libcore's reference `%s' to %s - not a function declared "
                              "in lltdPort.h" % (name, sym, target))
            else:
                rep.nontrivial((name, sym))
        rep.extra.setdefault("loader_bindings_seen", {})[name] = len(syms)
        if not syms:
            rep.inconclusive.append("configuration %s: no loader bindings observed" % name)
        # auxiliary static cross-check
        if und is not None:
            for sym in und:
                if sym.startswith("startup-section:"):
                    rep.violation("C20:core-relies-on-runtime-startup:%s" % sym.split(":")[1],
                                  "configuration %s: the relocatably linked core carries a %s section - code that only runs if a C runtime "
                                  "or a loader calls it before the first frame" % (name, sym.split(":")[1]))
                elif not (sym in allowed or sym in MEMFUNCS or COMPILER_RT.match(sym)):
                    rep.violation("C20:undefined-symbol-outside-port-api:%s" % sym,
                                  "configuration %s: nm -u of the relocatably linked core lists `%s'" % (name, sym))
        # event logs identical across the matrix
        if lg is not None:
            rc, text = lg
            if rc != 0 or not text:
                rep.inconclusive.append("configuration %s: corpus run exited %s" % (name, rc))
            elif ref_log is None:
                ref_log = (name, text)
            elif text != ref_log[1]:
                a, b = ref_log[1].split("\n"), text.split("\n")
                j = next((k for k in range(min(len(a), len(b))) if a[k] != b[k]), -1)
                rep.violation("C20:behaviour-depends-on-compiler-setting",
                              "event logs of %s and %s differ, first at line %d:\n  %s\n  %s" % (ref_log[0], name, j, a[j][:200] if j >= 0 else "", b[j][:200] if j >= 0 else ""))
            rep.count("corpus_runs")
        # syscall bracket
        if br is not None:
            rc, out, state, inside = br
            if rc != 0 or state != 2 or not out.startswith("SENT "):
                rep.inconclusive.append("configuration %s: bracket run rc=%s state=%s out=%r" % (name, rc, state, out[:80]))
            else:
                rep.count("bracket_runs")
                rep.nontrivial(("bracket", name))
                if sent_ref is None:
                    sent_ref = out
                elif out != sent_ref:
                    rep.violation("C20:behaviour-depends-on-compiler-setting", "bracket run of %s reports %r, others %r" % (name, out, sent_ref))
                # the same drive in a port without a C runtime must behave identically
                bo = bare_out.get(name)
                if bo is None:
                    pass
                elif bo[0] in ("nolink", "timeout") or bo[0] != 0 or not bo[1].startswith("SENT "):
                    rep.inconclusive.append("configuration %s: run without a C runtime: %r" % (name, bo))
                else:
                    rep.count("bare_runs")
                    rep.nontrivial(("bare", name))
                    if bo[1] != out:
                        rep.violation("C20:behaviour-depends-on-a-c-runtime",
                                      "configuration %s: linked into a port without C runtime (own _start, no constructors run, raw system "
                                      "calls) the core reports %r, in the hosted harness %r" % (name, bo[1], out))
                if inside:
                    rep.violation("C20:system-call-from-inside-the-core:%s" % inside[0].split("(")[0].split(" ")[-1],
                                  "configuration %s: system calls between the BEGIN and END markers:\n%s" % (name, "\n".join(inside[:10])))
    # auxiliary static cross-check on targets that cannot run here: the core compiled freestanding for CPUs without native
    # atomics / 64-bit division (bare-metal class ports) may reference the port API, the memory primitives and the
    # integer helpers of the compiler runtime - nothing that needs libatomic, libc or an operating system
    cross = [("gcc-i386", ["gcc", "-m32", "-march=i386", "-isystem", gcc_inc]),
             ("clang-armv6m", ["clang", "--target=armv6m-none-eabi", "-isystem", clang_inc]),
             ("clang-armv5te", ["clang", "--target=armv5te-none-eabi", "-isystem", clang_inc]),
             ("clang-rv32imc", ["clang", "--target=riscv32", "-march=rv32imc", "-isystem", clang_inc]),
             ("clang-mipsel", ["clang", "--target=mipsel-none-elf", "-isystem", clang_inc])]
    # ... and hosted compiles for other operating systems: a compiler that knows the platform's C library may turn plain loops
    # into calls to functions only that library has (clang on Apple targets: memset_pattern16; bcmp elsewhere)
    hosted = [("clang-macos-x86_64-hosted", ["clang", "--target=x86_64-apple-macosx10.15", "-isystem", clang_inc]),
              ("clang-macos-arm64-hosted", ["clang", "--target=arm64-apple-macos11", "-isystem", clang_inc]),
              ("clang-freebsd-hosted", ["clang", "--target=x86_64-unknown-freebsd13", "-isystem", clang_inc]),
              ("clang-android-hosted", ["clang", "--target=aarch64-linux-android29", "-isystem", clang_inc]),
              ("clang-windows-hosted", ["clang", "--target=x86_64-pc-windows-msvc", "-isystem", clang_inc])]
    nm_tool = "llvm-nm-14" if sh(["which", "llvm-nm-14"]).returncode == 0 else "nm"

    def cross_cfg(item):
        (tname, cmd), opt = item
        objs = []
        for c in core:
            o = os.path.join(d, "x-%s%s-%s.o" % (tname, opt, os.path.basename(c)))
            r = sh(cmd + [opt] + ([] if tname.endswith("-hosted") else ["-ffreestanding"]) + ["-nostdinc", "-w", "-c", inc, "-o", o, c])
            if r.returncode != 0:
                return tname, opt, None, r.stdout[-400:]
            objs.append(o)
        und, dfn = set(), set()
        for o in objs:
            und |= set(x.split()[-1] for x in sh([nm_tool, "-u", o]).stdout.split("\n") if x.strip())
            dfn |= set(x.split()[-1] for x in sh([nm_tool, "--defined-only", o]).stdout.split("\n") if x.strip())
        if "macos" in tname:                        # Mach-O symbol names carry a leading underscore
            und = set(x[1:] if x.startswith("_") else x for x in und)
            dfn = set(x[1:] if x.startswith("_") else x for x in dfn)
        return tname, opt, und - dfn, None

    with ThreadPoolExecutor(max_workers=H.NCPU) as ex:
        xres = list(ex.map(cross_cfg, [(c, o) for c in cross for o in ("-O0", "-O2", "-Os")] +
                           [(c, o) for c in hosted for o in ("-O1", "-O2", "-Os", "-Oz")]))
    for tname, opt, und, err in xres:
        if und is None:
            rep.notes.append("cross target %s%s not available here: %s" % (tname, opt, (err or "").strip()[-160:]))
            continue
        rep.count("cross_target_objects_checked")
        if tname.endswith("-hosted"):
            rep.count("hosted_other_os_objects_checked")
        rep.nontrivial(("cross", tname, opt))
        for sym in sorted(und):
            if not (sym in allowed or sym in MEMFUNCS or COMPILER_RT.match(sym)):
                rep.violation("C20:undefined-symbol-outside-port-api:%s" % sym,
                              "core compiled for %s %s references `%s' - not a port function, a memory primitive or an "
                              "integer helper of the compiler runtime" % (tname, opt, sym))
    # the repository's own lint rule (lexical clause; not runtime monitoring)
    r = sh(["bash", "scripts/lint_core_no_os_conditionals.sh"], cwd=H.REPO)
    rep.extra["lint_script"] = dict(exit=r.returncode, tail=r.stdout[-300:])
    if r.returncode != 0:
        rep.violation("C20:lint:os-specific-macro-or-header-in-core", "scripts/lint_core_no_os_conditionals.sh failed:\n" + r.stdout[-1500:])
    rep.need("corpus_runs", rep.counters.get("corpus_runs", 0), 16)
    rep.need("bracket_runs", rep.counters.get("bracket_runs", 0), 16)
    rep.need("cross_target_objects_checked", rep.counters.get("cross_target_objects_checked", 0), 6)
    rep.need("hosted_other_os_objects_checked", rep.counters.get("hosted_other_os_objects_checked", 0), 8)
    if os.uname().machine == "x86_64":
        rep.need("bare_runs", rep.counters.get("bare_runs", 0), 12)
    rep.sample(dict(configurations=["%s%s-%s" % c for c in cfgs], scenarios=len(scns), bracket_output=sent_ref))
    rep.exhaustive = False
