"""C12 - periodic Hellos are paced, purposeful and stop with the session."""
from .. import gen as G
from .. import harness as H
from .. import wire as W
from ..runner import run_monitored

ADV_DENSE = [0, 1, 99, 100, 119, 120, 299, 300, 999, 1000, 1001, 29999, 30000, 30001, 59999, 60000, 60001]


def make_api(ctx, count):
    scns = []
    for i in range(count):
        rng = G.rng_for(ctx.seed, "C12a", i)
        s = H.Scenario("a%d" % i)
        s.iface(0, mtu=1500, mac=G.rand_mac(rng))
        s.add("OPT sleep=0")
        now = rng.choice([1, 2, 999, 1000, 1001, 60000, 10 ** 7, 4294967296000 - 100000, 4294967296000 - 75000, 4294967296000 - 10000])      # also just below 2^32 seconds
        s.add("NOW %d" % now)
        s.add("AI 0")
        ops = [("AI",)]
        keys = [(G.rand_mac(rng), rng.choice([0, 1, 7])) for _ in range(rng.randint(1, 20))]
        style = rng.choice(["busy", "sparse", "complete"])
        for _ in range(rng.randint(200, 700) if ctx.quick else rng.randint(200, 1000)):
            r = rng.random()
            k = rng.choice(keys)
            if r < 0.22:
                n = rng.choice([1, 1, 2, 5, 12, 40])
                step = rng.choice([100, 100, 100, 50, 250, 1000])
                s.add("KR 0 %d %d" % (n, step))
                ops.append(("KR", n, step))
            elif r < 0.36:
                ms = rng.choice(ADV_DENSE) if rng.random() < 0.85 else rng.randint(0, 120000)
                if rng.random() < 0.03:
                    ms = rng.choice([65536000, 4294967000, 4294968000, 4295027000, (1 << 32) + 30000, 1 << 33, 1 << 41])      # very long without a tick
                s.add("ADV %d" % ms)
                ops.append(("ADV", ms))
            elif r < 0.50:
                s.add("TA 0 %s %d %d" % (k[0].hex(), k[1], rng.randint(0, 5)))
                ops.append(("TA", k))
            elif r < 0.58:
                c = 1 if (style == "complete" or rng.random() < 0.6) else 0
                s.add("TM 0 %s %d %d" % (k[0].hex(), k[1], c))
                ops.append(("TM", k, c))
            elif r < 0.62:
                s.add("TR 0 %s %d" % (k[0].hex(), k[1]))
                ops.append(("TR", k))
            elif r < 0.635:
                s.add("TC 0")
                ops.append(("TC",))
            elif r < 0.72:
                s.add("BH 0")
                ops.append(("BH",))
                s.add("SE 0 2")
                ops.append(("SE", 2))
            elif r < 0.80:
                ev = rng.choice([0, 1, 2, 3, 3, 3])
                s.add("SE 0 %d" % ev)
                ops.append(("SE", ev))
            elif r < 0.88:
                s.add("BI 0")
                ops.append(("BI",))
                s.add("BC 0")
                ops.append(("BC",))
            elif r < 0.90:
                s.add("BG 0")
                ops.append(("BG",))
            elif r < 0.96:
                inp = rng.choice([0, 0, 2, 8, 6, 9, 4, -1])
                s.add("SM 0 %d" % inp)
                ops.append(("SM", inp))
                if style != "sparse" or rng.random() < 0.5:
                    s.add("MR 0")
                    ops.append(("MR",))
            else:
                s.add("MR 0")
                ops.append(("MR",))
        s.meta = dict(ops=ops, kind="api", now=now)
        scns.append(s)
    return scns


def make_flow(ctx, count):
    scns = []
    for i in range(count):
        rng = G.rng_for(ctx.seed, "C12f", i)
        cfg = G.rand_cfg(rng, mtu=1500)
        net = G.Net(rng, cfg["mac"])
        s = H.Scenario("f%d" % i)
        s.iface(0, **H.iface_kw(cfg)).glob(**G.global_kw(G.rand_global(rng, icon_size=0)))
        s.add("OPT sleep=0")
        now = rng.choice([1, 1000, 123456, (1 << 32) - 30000, 1 << 40, 4294967296000 - 100000, 4294967296000 - 75000, 4294967296000 - 20000])
        s.add("NOW %d" % now)
        ops = []
        degraded = i % 16 == 7
        if degraded:
            # the mapping engine came up without its timer block (its second allocation failed at start-up): there is no
            # 30 s silence rule then, the sessions still expire after 60 s and the Hellos must stop with them
            s.add("FAULT malloc 2 0")
            s.add("AI 0")
            s.add("CLEAR")
            ops.append(("AI",))
        # half of the histories run beside a second interface of the same process (own automata, own sessions) that the
        # daemon's loop ticks first in every pass; its inputs are not judged
        shadow = i % 2 == 1
        if shadow:
            cfg1 = G.rand_cfg(rng, mtu=1500)
            net1 = G.Net(rng, cfg1["mac"])
            s.iface(1, **H.iface_kw(cfg1))
            s.frame(1, G.f_discover(rng, net1, m=0, ack=False, nstations=1, tos=0), op="W")
        keepalive = i % 8 == 3 and not degraded
        if keepalive:
            # several mappers' sessions of different age; one of them keeps being refreshed by its mapper's repeated Discovers
            # (a few seconds apart, so the 30 s silence rule never fires) for more than a minute, the others fall silent:
            # each session leaves the table 60 s after *its* last Discover, whatever the others do
            order = rng.sample(range(len(net.mappers)), rng.choice([2, 2, 3]))
            acks = [rng.random() < 0.6 for _ in order]
            gens = [rng.choice([1, 2, 7]) for _ in order]
            keep = rng.randrange(len(order))
            if rng.random() < 0.7:
                acks[keep] = True                      # usually the surviving session is complete: no Hello is due once the others are gone

            def disc(j):
                fr = G.f_discover(rng, net, m=order[j], ack=acks[j], nstations=rng.choice([1, 2]), gen=gens[j], tos=0)
                s.frame(0, fr, op="W")
                ops.append(("W", fr[15], fr[17], (fr[24:30], int.from_bytes(fr[32:34], "big"))))

            def ticks(n):
                if shadow:
                    s.add("KR 0 %d 100 1" % n)
                    ops.append(("KR", n, 100, 1))
                else:
                    s.add("KR 0 %d 100" % n)
                    ops.append(("KR", n, 100))
            for j in range(len(order)):
                disc(j)
                ticks(rng.choice([1, 10, 11, 25]))
            for _ in range(rng.randint(22, 40)):
                ticks(rng.choice([10, 20, 30, 40, 45]))
                disc(keep)
                if rng.random() < 0.1:
                    fr = G.f_hello(rng, net)
                    s.frame(0, fr, op="W")
                    ops.append(("W", fr[15], fr[17], None))
        for _ in range(0 if keepalive else rng.randint(30, 90)):
            r = rng.random()
            if r < 0.4:
                n = rng.choice([1, 3, 10, 30, 60, 320, 650])
                if shadow:
                    s.add("KR 0 %d 100 1" % n)
                    ops.append(("KR", n, 100, 1))
                else:
                    s.add("KR 0 %d 100" % n)
                    ops.append(("KR", n, 100))
            elif r < 0.5:
                ms = rng.choice([1000, 5000, 29000, 30000, 31000, 59000, 60000, 61000, 120000, 120000, 4294968000, (1 << 32) + 30000, 1 << 41])
                s.add("ADV %d" % ms)
                ops.append(("ADV", ms))
            else:
                k = rng.random()
                m = rng.randrange(len(net.mappers))
                if k < 0.35:
                    fr = G.f_discover(rng, net, m=m, ack=rng.random() < 0.35, nstations=rng.choice([1, 2, 4]),
                                      gen=rng.choice([1, 2]), tos=rng.choice([0, 0, 1]))
                elif k < 0.65:
                    fr = G.f_hello(rng, net)
                elif k < 0.75:
                    fr = G.f_reset(rng, net, m=m)
                elif k < 0.82:
                    fr = G.f_probe(rng, net)
                elif k < 0.88:
                    fr = G.f_query(rng, net, m)
                elif k < 0.95:
                    fr = W.simple(W.OP_CHARGE, net.own, net.mappers[m])
                else:
                    fr = G.f_misc(rng, net)
                s.frame(0, fr, op="W")
                ops.append(("W", fr[15], fr[17], (fr[24:30], int.from_bytes(fr[32:34], "big")) if len(fr) >= 36 else None))
        s.meta = dict(ops=ops, kind="flow", now=now, shadow=shadow, degraded=degraded, keepalive=keepalive)
        scns.append(s)
    return scns


def last_snap(inp, kind):
    for e in reversed(inp.ev):
        if e[0] == "A" and e[1] == kind:
            return e[2]
    return None


def monitor(scn, sobj, rep, sf, ck):
    ops = sobj.meta["ops"]
    it = iter(scn.inputs)
    last_cb = None
    callbacks = 0
    shadow_ticks = 0
    seen = set()
    enum_state = 0
    tcount = 0
    inact = 0
    band_hello = 0
    checked = 0

    def bad(key, msg, inp):
        rep.violation("C12:" + key, "scenario %s input %d (%s): %s" % (scn.sid, inp.n, inp.op, msg), replay=sobj.text())

    clock = sobj.meta["now"]
    last_frame = None           # daemon-flow histories: when the last frame arrived on this interface
    flow = sobj.meta["kind"] == "flow"
    # the monitor's own book of sessions: a superset of the sessions that can be live (removal by expiry or by the 30 s
    # silence rule only marks them 'maybe gone'), each with "certainly complete while live" or not.  A periodic Hello needs
    # a live session that is not complete, so it needs an entry here that is not certainly complete - a table that still
    # holds a session the daemon cleared, removed or reset long ago fails this.
    book = {}                   # key -> dict(complete=bool, last=ms, maybe_gone=bool)
    map_state = [0]
    armed_at = None             # when the inactivity timer was last restarted (ms)
    book_unknown = False

    def book_add(k, now_ms, acking=None):
        e = book.get(k)
        if e is None or e["maybe_gone"]:
            book[k] = dict(complete=bool(acking), last=now_ms, maybe_gone=False)
        else:
            e["last"] = now_ms
            if acking:
                e["complete"] = True

    def book_tick(now_ms):
        for e in book.values():
            if now_ms - e["last"] > 59000 or (armed_at is not None and now_ms - armed_at > 29000):
                e["maybe_gone"] = True

    def book_update(inp, op, now_ms):
        nonlocal armed_at, book_unknown
        kind = op[0]
        if kind == "TA":
            book_add(op[1], now_ms)
        elif kind == "TM":
            e = book.get(op[1])
            if e is not None:
                e["complete"] = bool(op[2])     # if it is gone meanwhile this is a no-op there, and a re-add starts afresh here too
        elif kind == "TR":
            book.pop(op[1], None)
        elif kind == "TC":
            book.clear()
            book_unknown = False
        elif kind == "MR":
            armed_at = now_ms
        elif kind == "W":
            armed_at = now_ms
            if op[2] == W.OP_RESET:
                book.clear()
                book_unknown = False
            elif op[2] == W.OP_DISCOVER:
                r = next((x[1] for x in inp.ev if x[0] == "R"), None)
                if op[3] is None or r is None:
                    book_unknown = True           # session key taken from stale buffer content: not modelled
                else:
                    book_add(op[3], now_ms, acking=r in (3, 5))
        if kind in ("K", "KR", "W"):
            book_tick(now_ms)
        if kind == "W":
            # the daemon clears the table whenever the mapping engine falls back to idle (Reset, state timeout)
            mm = last_snap(inp, "M")
            if mm is not None:
                st = int(mm[0])
                if st == 0 and map_state[0] != 0:
                    for e in book.values():
                        e["maybe_gone"] = True
                map_state[0] = st

    def handle(inp, op):
        nonlocal last_cb, callbacks, enum_state, tcount, inact, band_hello, checked
        hs = [e for e in inp.ev if e[0] == "H"]
        book_update(inp, op, clock)
        for h in hs:
            _, ifc, now, valid, incomplete, in_tick = h
            callbacks += 1
            checked += 1
            if not book_unknown:
                # a session that has not been heard from for more than 60 s is removed by the tick before it decides about the
                # Hello (62 s here: the table counts in whole seconds)
                live = {k: e for k, e in book.items() if now - e["last"] < 62000}
                if len(live) < len(book) and any(not e["complete"] for e in book.values()):
                    seen.add("hello-decision-with-an-expired-incomplete-session-in-the-book")
                if any(not e["complete"] for e in live.values()):
                    seen.add("hello-with-a-booked-incomplete-session")
                else:
                    bad("hello-although-every-session-since-the-last-clear-is-complete-or-gone",
                        "send_hello at t=%d; sessions added since the table was last cleared/reset: %s; the table reports %d live, %d incomplete"
                        % (now, ["%s/%d:%s" % (k[0].hex(), k[1], "complete" if e["complete"] else "incomplete") for k, e in book.items()],
                           valid, incomplete), inp)
            if flow and last_frame is not None and inp.op == "K":
                if now != clock:
                    rep.inconclusive.append("scenario %s input %d: the monitor's clock (%d) and the port's (%d) disagree" % (scn.sid, inp.n, clock, now))
                elif now - last_frame >= (62000 if sobj.meta.get("degraded") else 31000):
                    # 30 s without traffic drop the sessions; the tick that would send this Hello checks that first
                    bad("hello-after-30s-without-traffic", "send_hello at t=%d, last frame at t=%d (%d ms of silence), table reports %d "
                        "live sessions" % (now, last_frame, now - last_frame, valid), inp)
                elif now - last_frame >= 20000:
                    seen.add("hello-late-in-the-silence")
                    if sobj.meta.get("degraded") and now - last_frame >= 40000:
                        seen.add("hello-late-in-the-silence-without-timer-block")
            if not in_tick:
                bad("hello-outside-tick", "send_hello invoked outside automata_tick at t=%d" % now, inp)
            if incomplete < 1:
                bad("hello-without-incomplete-session", "send_hello at t=%d with %d live sessions, %d incomplete" % (now, valid, incomplete), inp)
            if last_cb is not None and now - last_cb < 1000:
                bad("hellos-less-than-1s-apart", "send_hello at t=%d, previous at t=%d (%d ms apart)" % (now, last_cb, now - last_cb), inp)
            if last_cb is not None and now - last_cb < 1100:
                seen.add("paced-at-min-interval")
            last_cb = now
        # Hellos leaving through the transmit path must be Discover replies
        for e in inp.sends():
            raw = e[3]
            if raw and len(raw) >= 18 and raw[17] == W.OP_HELLO:
                checked += 1
                if not (op[0] == "W" and op[2] == W.OP_DISCOVER and op[1] in (0, 1)):
                    bad("hello-sent-without-discover", "a Hello left through send_frame while handling %r" % (op,), inp)
        m, e_, t = last_snap(inp, "M"), last_snap(inp, "E"), last_snap(inp, "T")
        if inp.op == "K" and e_ is not None and t is not None and m is not None:
            es, hello_ts = int(e_[0]), int(e_[5])
            cnt = int(t[0])
            new_inact = int(m[4])
            if not hs and last_cb is not None and hello_ts == last_cb + 1000 and band_hello != hello_ts:
                seen.add("suppressed-by-min-interval")
            if tcount > 0 and cnt == 0:
                seen.add("emptied-by-30s-inactivity" if (inact != 0 and new_inact == 0) else "emptied-by-60s-expiry")
            if enum_state == 1 and es == 2:
                seen.add("pausing>wait")
            if enum_state == 2 and es == 0:
                seen.add("wait>quiescent")
            if enum_state == 1 and es == 0:
                seen.add("pausing>quiescent")
        if e_ is not None:
            enum_state, band_hello = int(e_[0]), int(e_[5])
        if t is not None:
            tcount = int(t[0])
        if m is not None:
            inact = int(m[4])

    dead = False
    for op in ops:
        if dead:
            break
        if op[0] == "ADV":
            clock += op[1]
            continue
        reps = op[1] if op[0] == "KR" else 1
        for _ in range(reps):
            if op[0] == "KR":
                clock += op[2]
            inp = next(it, None)
            while inp is not None and inp.iface != 0 and inp.out is not None:
                clock += inp.out[3]          # the other interface (shared clock); not judged
                if inp.op == "K":
                    shadow_ticks += 1
                inp = next(it, None)
            if inp is None or inp.out is None:
                dead = True
                break
            if op[0] == "W":
                last_frame = clock
            handle(inp, op)
            clock += inp.out[3]
    rep.count("ticks_beside_a_second_interface", shadow_ticks)
    rep.evaluations += checked
    rep.count("callbacks", callbacks)
    rep.count("callbacks_" + sobj.meta["kind"], callbacks)
    for x in seen:
        rep.count("reach:" + x)
    if sobj.meta.get("keepalive") and callbacks:
        rep.count("histories_with_one_session_kept_alive_for_more_than_a_minute")
    if callbacks >= 2:
        rep.nontrivial((scn.sid, callbacks, tuple(sorted(seen))))
    if callbacks and len(rep.samples) < 3:
        rep.sample(dict(scenario=scn.sid, kind=sobj.meta["kind"], callbacks=callbacks, first_ops=[str(o) for o in ops[:16]],
                        reached=sorted(seen)))


def run(ctx):
    rep = ctx.report
    rep.rule = ("random API-level schedules (tick, clock advance, session add/refresh/complete/remove/clear, Hello-heard, "
                "enumeration and mapping events; last-transmit timestamp wired to one per-interface field) and daemon-flow "
                "frame histories with 100 ms ticks and long silences; every send_hello callback is judged (inside tick, "
                "incomplete session present, >= 1000 ms after the previous one); a schedule is non-trivial when it "
                "produced at least two callbacks")
    rep.assumptions = ["virtual clock >= 1 ms (0 is the core's 'never sent' value)",
                       "'eventually stops' is judged as safety: no callback while no incomplete session exists",
                       "daemon flow is a transcription of darwin-main.c:289-404 (harness/vh_flow.c)"]
    binary = H.build(ctx.work, "asan")
    scns = make_api(ctx, ctx.n(1200, 12000)) + make_flow(ctx, ctx.n(600, 6000))
    run_monitored(ctx, binary, scns, monitor, tag="hello")
    c = rep.counters
    rep.need("callbacks", c.get("callbacks", 0), 1000)
    rep.need("callbacks_flow", c.get("callbacks_flow", 0), 200)
    rep.need("histories_with_one_session_kept_alive_for_more_than_a_minute", c.get("histories_with_one_session_kept_alive_for_more_than_a_minute", 0), 20)
    rep.need("ticks_beside_a_second_interface", c.get("ticks_beside_a_second_interface", 0), 1000)
    for name in ("hello-late-in-the-silence-without-timer-block", "hello-with-a-booked-incomplete-session", "hello-late-in-the-silence", "suppressed-by-min-interval", "emptied-by-30s-inactivity", "emptied-by-60s-expiry", "pausing>wait",
                 "wait>quiescent", "paced-at-min-interval"):
        rep.need(name, c.get("reach:" + name, 0), 10)
