"""C05 - one mapper at a time; Reset releases it; foreign services cannot seize it."""
from .. import gen as G
from .. import harness as H
from .. import wire as W
from ..model import MapperModel, COMMAND_OPS
from ..runner import run_monitored
from . import sweeps

TOS_POOL = [0, 0, 0, 0, 1, 1, 2, 3]


def history(rng, net, n, tos_pool=TOS_POOL, p_rand_tos=0.1, gaps=None):
    """Frames per the property's quantifier; commands respect the domain restriction."""
    mm = MapperModel()
    out = []
    last_cmd_seq = [0]
    stations = net.mappers + net.strangers[:2]
    bridge_of = dict(zip(net.mappers, net.bridges))
    for _ in range(n):
        tos = rng.choice(tos_pool) if rng.random() >= p_rand_tos else rng.randint(0, 255)
        r = rng.random()
        src = rng.choice(stations)
        eth = bridge_of.get(src, src) if rng.random() < 0.25 else src
        if r < 0.34:
            fr = W.discover(src, rng.choice(G.GENS + [rng.getrandbits(16)]), rng.getrandbits(16),
                            [rng.choice(net.strangers + [net.own]) for _ in range(rng.choice([0, 1, 3]))],
                            tos=tos, eth_src=eth)
        elif r < 0.44:
            # a Reset's sequence-number field is just a field: zero, anything, or the number the mapper's last command carried
            if mm.state == MapperModel.ACTIVE and rng.random() < 0.5:
                src, eth = mm.mapper, mm.apparent
            rs = rng.choice([0, 0, last_cmd_seq[0], last_cmd_seq[0], rng.randint(1, 0xFFFF)])
            fr = W.reset(src, tos=tos, eth_src=eth, seq=rs) if rng.random() < 0.7 else \
                W.reset(src, tos=tos, eth_src=eth, real_dst=net.own, eth_dst=net.own, seq=rs)
        elif r < 0.52:
            fr = G.f_hello(rng, net, tos=tos)
        elif r < 0.62:
            fr = W.probe(net.own, G.rand_mac(rng), net.own, src, train=rng.random() < 0.5, tos=tos)
        elif r < 0.84:
            # commands: only from the active mapper, or (rarely) while none is active
            op = rng.choice(COMMAND_OPS)
            if tos in (0, 1):
                if mm.state == MapperModel.ACTIVE:
                    src = mm.mapper
                    eth = mm.apparent
                elif mm.state == MapperModel.SOFT and rng.random() < 0.8:
                    src = mm.mapper
                    eth = mm.apparent
                elif mm.state == MapperModel.IDLE and rng.random() < 0.5:
                    # a command may open the session while none is active (inside the domain); not always
                    op = W.OP_CHARGE
            seq = rng.randint(1, 0xFFFF)
            last_cmd_seq[0] = seq
            if op == W.OP_EMIT:
                fr = W.emit(net.own, src, seq, [(rng.randint(0, 1), 0, G.rand_mac(rng), G.rand_mac(rng))
                                                for _ in range(rng.randint(1, 3))], tos=tos, eth_src=eth)
            elif op == W.OP_QUERY:
                fr = W.query(net.own, src, seq, tos=tos, eth_src=eth)
            elif op == W.OP_QLT:
                fr = W.qlt(net.own, src, seq, rng.choice([0x0E, 0x11, 0x13, 0x55]), rng.choice([0, 1, 500]),
                           tos=tos, eth_src=eth)
            else:
                fr = W.simple(op, net.own, src, seq, tos=tos, eth_src=eth)
        else:
            op = rng.choice([W.OP_ACK, W.OP_CHARGE, W.OP_FLAT, W.OP_QUERYRESP, W.OP_QLTRESP, rng.randint(13, 255)])
            fr = W.simple(op, net.own, src, rng.getrandbits(16), tos=tos, eth_src=eth) + bytes(
                rng.getrandbits(8) for _ in range(rng.choice([0, 4, 30])))
        mm.step(fr)
        out.append(fr)
        if mm.state == MapperModel.ACTIVE and rng.random() < 0.05:
            # the mapper keeps the responder charged during a long mapping run: Charge frames a second or more apart, then
            # somebody else tries a Discover - no Reset has been sent, so it must stay unanswered
            for k in range(rng.randint(2, 3)):
                ch = W.simple(W.OP_CHARGE, net.own, mm.mapper, rng.randint(1, 0xFFFF), tos=rng.choice([0, 0, 1]), eth_src=mm.apparent)
                mm.step(ch)
                out.append(ch)
                if gaps is not None and k > 0:
                    gaps[len(out) - 1] = ["ADV %d" % rng.choice([999, 1000, 1001, 1500, 5000])]
            other = rng.choice([s_ for s_ in stations if s_ != mm.mapper])
            d = W.discover(other, rng.getrandbits(16), rng.getrandbits(16), [], tos=rng.choice([0, 1]))
            mm.step(d)
            out.append(d)
    return out


def make_scenarios(ctx, count, flen):
    scns = []
    for i in range(count):
        rng = G.rng_for(ctx.seed, "C05", i)
        cfg = G.rand_cfg(rng, mtu=rng.choice([576, 1500, 9216, rng.randint(576, 9216), rng.choice(G.MTUS_HUGE)]))
        glob = G.rand_global(rng, icon_size=rng.choice([0, 300]))
        net = G.Net(rng, cfg["mac"], nmappers=rng.randint(3, 4), nstrangers=3)
        gaps = {}
        if i % 4 == 3:
            frames = G.session_history(rng, net, cfg["mtu"], flen, p_mut=0.0, p_noise=0.0, p_misc=0.1, max_emit=2)
        else:
            frames = history(rng, net, flen, gaps=gaps)
        s = H.Scenario("h%d" % i, meta=dict(frames=frames, own=cfg["mac"], mtu=cfg["mtu"], rxseed=cfg["rxseed"]))
        s.iface(0, **H.iface_kw(cfg)).glob(**G.global_kw(glob))
        s.add("OPT sleep=0")
        shadow = None
        if i % 4 == 1:
            cfg1, fr1 = G.shadow_iface(rng, cfg, max(5, len(frames) // 2))
            s.iface(1, **H.iface_kw(cfg1))
            shadow = (1, fr1)
        s.frames(0, frames, rng if i % 2 else None, p_gap=0.25, base=True, shadow=shadow, inserts=gaps)
        scns.append(s)
    return scns


def make_churn(ctx, count):
    """the mapper's session while the observation record is filled to its bound, beyond it, and drained in parts (G.obs_churn):
    the mapper's Discovers in between are answered, everybody else's are not"""
    scns = []
    for i in range(count):
        rng = G.rng_for(ctx.seed, "C05churn", i)
        cfg = G.rand_cfg(rng, mtu=rng.choice([1500, 1500, 9000]))
        net = G.Net(rng, cfg["mac"], nmappers=3, nstrangers=3)
        m = rng.randrange(3)
        frames, _, st = G.obs_churn(rng, net, m, cfg["mtu"], mode=["flood", "boundaries", "flood", "sawtooth"][i % 4],
                                    budget=ctx.n(2600, 4000), discover_every=0.15, use_mtu=False, bridged=rng.random() < 0.2)
        out = []
        for k, fr in enumerate(frames):
            out.append(fr)
            if k > 0 and rng.random() < 0.004:
                other = net.mappers[(m + rng.randint(1, 2)) % 3] if rng.random() < 0.6 else G.rand_mac(rng)
                out.append(W.discover(other, rng.getrandbits(16), rng.getrandbits(16), [], tos=rng.choice([0, 0, 1])))
        # whatever the record went through, the session is still the mapper's
        out.append(W.discover(G.rand_mac(rng), 1, rng.getrandbits(16), [], tos=0))
        out.append(G.f_discover(rng, net, m=m, tos=0))
        s = H.Scenario("ch%d" % i, meta=dict(frames=out, own=cfg["mac"], mtu=cfg["mtu"], rxseed=cfg["rxseed"], churn=st))
        s.iface(0, **H.iface_kw(cfg)).glob(**G.global_kw(G.rand_global(rng, icon_size=0)))
        s.add("OPT sleep=0 txhex=1")
        s.frames(0, out)
        scns.append(s)
    return scns


def make_strangers(ctx, count):
    """a busy segment: while one mapper's session is open, Discovers arrive from many distinct other stations (N around 8, 16,
    32, 64 and beyond - what a table of 'stations heard' might hold), some of them again and again; none is answered, the
    mapper's own Discovers in between all are"""
    scns = []
    for i in range(count):
        rng = G.rng_for(ctx.seed, "C05crowd", i)
        cfg = G.rand_cfg(rng, mtu=rng.choice([576, 1500, 9000]))
        net = G.Net(rng, cfg["mac"], nmappers=3, nstrangers=3)
        m = rng.randrange(3)
        n = rng.choice([7, 8, 9, 15, 16, 17, 31, 32, 33, 64, 65, 100, 130, 257])
        others = G.distinct_macs(rng, n, avoid=[cfg["mac"]] + net.mappers)
        frames = [G.f_discover(rng, net, m=m, tos=0)]
        for k, st in enumerate(others):
            frames.append(W.discover(st, rng.getrandbits(16), rng.getrandbits(16), [], tos=rng.choice([0, 0, 1]),
                                     eth_src=st if rng.random() < 0.8 else G.rand_mac(rng)))
            r = rng.random()
            if r < 0.15:
                frames.append(G.f_discover(rng, net, m=m, tos=rng.choice([0, 0, 1])))
            elif r < 0.3 and k:
                back = others[rng.randrange(k)]
                frames.append(W.discover(back, rng.getrandbits(16), rng.getrandbits(16), [], tos=0))
            elif r < 0.35:
                frames.append(G.f_query(rng, net, m))
        frames.append(G.f_discover(rng, net, m=m, tos=0))
        frames.append(W.discover(others[0], 1, 2, [], tos=0))
        if rng.random() < 0.5:
            frames.append(G.f_reset(rng, net, m=m, tos=0))
            frames.append(W.discover(others[-1], 1, 2, [], tos=0))          # released: the next Discover, whoever sends it, is accepted
            frames.append(G.f_discover(rng, net, m=m, tos=0))
        s = H.Scenario("cr%d" % i, meta=dict(frames=frames, own=cfg["mac"], mtu=cfg["mtu"], rxseed=cfg["rxseed"], strangers=n))
        s.iface(0, **H.iface_kw(cfg)).glob(**G.global_kw(G.rand_global(rng, icon_size=0)))
        s.add("OPT sleep=0")
        s.frames(0, frames)
        scns.append(s)
    return scns


def make_multi(ctx, count):
    """three to six interfaces served by one core, each with its own mapper session, first heard in any order (the registry of
    per-interface records is built up in that order), their histories interleaved frame by frame: every interface keeps
    *its* mapper"""
    scns = []
    for i in range(count):
        rng = G.rng_for(ctx.seed, "C05multi", i)
        nif = rng.choice([3, 3, 4, 5, 6])
        cfgs, hists = [], []
        s = H.Scenario("mi%d" % i)
        for k in range(nif):
            cfg = G.rand_cfg(rng, mtu=rng.choice([576, 1500, 9000]))
            net = G.Net(rng, cfg["mac"], nmappers=3, nstrangers=3)
            cfgs.append(cfg)
            hists.append(history(rng, net, rng.randint(15, 40)))
            s.iface(k, **H.iface_kw(cfg))
        s.glob(**G.global_kw(G.rand_global(rng, icon_size=0)))
        s.add("OPT sleep=0")
        order = list(range(nif))
        rng.shuffle(order)
        if i % 3 == 0:
            order.sort(reverse=True)           # last-created context first
        pos = [0] * nif
        started = []
        seq = []
        # every interface is heard once in the chosen order (after a few frames of the ones heard before), then at random
        for k in order:
            for _ in range(rng.randint(0, 4)):
                if started:
                    j = rng.choice(started)
                    if pos[j] < len(hists[j]):
                        seq.append((j, hists[j][pos[j]]))
                        pos[j] += 1
            seq.append((k, hists[k][pos[k]]))
            pos[k] += 1
            started.append(k)
        live = [k for k in range(nif) if pos[k] < len(hists[k])]
        while live:
            k = rng.choice(live)
            seq.append((k, hists[k][pos[k]]))
            pos[k] += 1
            if pos[k] >= len(hists[k]):
                live.remove(k)
        for k, fr in seq:
            s.frame(k, fr)
        s.meta = dict(multi=[dict(frames=hists[k], mtu=cfgs[k]["mtu"], rxseed=cfgs[k]["rxseed"]) for k in range(nif)], order=order)
        scns.append(s)
    return scns


def monitor_multi(scn, sobj, rep, sf, ck):
    from ..model import RxBuf
    per = sobj.meta["multi"]
    st = [dict(rx=RxBuf(p["mtu"], p["rxseed"]), mm=MapperModel(), k=0, frames=p["frames"]) for p in per]
    judged = 0
    for inp in scn.inputs:
        if inp.iface is None or inp.iface >= len(st):
            continue
        x = st[inp.iface]
        if x["k"] >= len(x["frames"]):
            continue
        raw = x["frames"][x["k"]]
        x["k"] += 1
        fr = bytes(x["rx"].load(raw))[:max(36, len(raw))]
        before, active_before = x["mm"].state, x["mm"].mapper
        exp = x["mm"].step(fr)
        if inp.out is None:
            break
        if exp is None:
            continue
        sends = inp.sends()
        hellos = [e for e in sends if e[3] is not None and len(e[3]) >= 18 and e[3][17] == W.OP_HELLO]
        got = "hello" if hellos else ("silence" if not sends else "other-frames")
        judged += 1
        if got != exp:
            rep.violation("C05:several-interfaces:expected-%s-got-%s:state=%s" % (exp, got, before),
                          "scenario %s (%d interfaces, first heard in the order %s): interface %d, model state %s (mapper %s), Discover from "
                          "%s tos=%d: expected %s, observed %s" % (scn.sid, len(st), sobj.meta["order"], inp.iface, before,
                                                                 active_before.hex() if active_before else None, fr[24:30].hex(), fr[15], exp, got),
                          replay=sobj.text())
    rep.count("discovers_judged_beside_other_interfaces", judged)
    rep.count("histories_with_several_interfaces")
    rep.evaluations += judged
    if judged >= 3:
        rep.nontrivial((scn.sid, len(st), judged))


def monitor(scn, sobj, rep, sf, ck):
    frames = sobj.meta["frames"]
    from ..model import RxBuf
    rx = RxBuf(sobj.meta["mtu"], sobj.meta["rxseed"])
    mm = MapperModel()
    judged = 0
    kinds = set()
    for idx, inp in enumerate(scn.inputs):
        if idx >= len(frames):
            break
        fr = bytes(rx.load(frames[idx]))[:max(36, len(frames[idx]))]      # the frame as the core sees it in its receive buffer
        before = mm.state
        active_before = mm.mapper
        exp = mm.step(fr)
        if inp.out is None:
            break                       # the child died inside this input: nothing observable
        rep.count("frames_fed")
        tos, op = fr[15], fr[17]
        if tos not in (0, 1):
            rep.count("foreign_service_frames")
        if exp is None:
            continue
        sends = inp.sends()
        hellos = [e for e in sends if e[3] is not None and len(e[3]) >= 18 and e[3][17] == W.OP_HELLO]
        got = "hello" if hellos else ("silence" if not sends else "other-frames")
        judged += 1
        cls = "%s/%s" % (before if before != "active" else
                         ("active-same" if fr[24:30] == active_before else "active-other"), exp)
        if before == MapperModel.SOFT and fr[6:12] != fr[24:30]:
            rep.count("discover_judged:opened-by-command-bridged")
        kinds.add(cls)
        rep.count("discover_judged:" + cls)
        if got != exp:
            key = "C05:expected-%s-got-%s:tos=%d:state=%s" % (exp, got, tos, cls.split("/")[0])
            recent = ["tos=%d op=%d src=%s" % (f[15], f[17], f[24:30].hex()) for f in frames[max(0, idx - 8):idx + 1]]
            rep.violation(key, "scenario %s input %d: model state %s (mapper %s), Discover from %s tos=%d: expected %s, observed %s\n"
                          "last frames:\n  %s" % (scn.sid, idx + 1, before, active_before.hex() if active_before else None,
                                                  fr[24:30].hex(), tos, exp, got, "\n  ".join(recent)),
                          replay=sobj.text())
    if sobj.meta.get("strangers") and judged:
        rep.count("histories_with_many_distinct_strangers")
        if sobj.meta["strangers"] >= 16:
            rep.count("histories_with_16_or_more_distinct_strangers")
    if sobj.meta.get("churn") and judged:
        rep.count("churn_histories")
        if 1024 in sobj.meta["churn"]["levels"]:
            rep.count("churn_histories_reaching_the_observation_bound")
    if judged >= 3 and len(kinds) >= 2:
        rep.nontrivial((scn.sid, tuple(sorted(kinds)), judged))
    rep.count("discovers_judged", judged)
    rep.evaluations += judged
    if len(rep.samples) < 2 and judged:
        rep.sample(dict(scenario=scn.sid, frames=["tos=%d op=%s src=%s" % (f[15], W.OPNAMES.get(f[17], f[17]), f[24:30].hex())
                                                   for f in frames[:12]], judged=judged))


def run(ctx):
    rep = ctx.report
    rep.rule = ("random histories over 5-6 stations (Discover/Reset/Hello/Probe/Train/Emit/Query/QueryLargeTlv/"
                "Charge/Flat/ACK, ToS in {0,1,2,3,random}); a history is non-trivial when >=3 Discovers were judged "
                "against the reference model in >=2 distinct (model state, expectation) classes; plus the exhaustive "
                "single-step sweep over all (ToS, opcode) pairs in states idle and active (65526 pairs x 2 states)")
    rep.assumptions = ["commands are issued only by the active mapper or while none is active (property's domain restriction); "
                       "model state 'unknown' yields no expectation",
                       "frames in the histories carry a complete 32-byte base header"]
    binary = H.build(ctx.work, "asan")
    scns = make_scenarios(ctx, ctx.n(1500, 30000), 60)
    run_monitored(ctx, binary, scns, monitor, tag="hist")
    run_monitored(ctx, binary, make_multi(ctx, ctx.n(200, 4000)), monitor_multi, tag="multi")
    run_monitored(ctx, binary, make_strangers(ctx, ctx.n(120, 2000)), monitor, tag="crowd")
    plain = H.build(ctx.work, "plain")
    churn = make_churn(ctx, ctx.n(24, 400))
    run_monitored(ctx, binary, churn, monitor, tag="churn")
    run_monitored(ctx, plain, churn, monitor, tag="churn-plain")     # a stray write inside the state record is invisible to red zones
    # the same histories on size-optimised builds of both compilers and with plain char unsigned: behaviour must not depend
    # on the optimisation level, the compiler or the ABI's choice for char
    os_gcc, os_clang, uchar = H.build_many(ctx.work, [dict(flavour="plain-os"), dict(flavour="plain-clang-os"), dict(flavour="asan-uchar")])
    third = max(1, len(scns) // 3)
    run_monitored(ctx, os_gcc, scns[:third], monitor, tag="hist-os")
    run_monitored(ctx, os_clang, scns[third:2 * third], monitor, tag="hist-clang-os")
    run_monitored(ctx, uchar, scns[2 * third:], monitor, tag="hist-uchar")
    rep.need("discovers_judged", rep.counters.get("discovers_judged", 0), 1000)
    for cls in ("idle/hello", "active-same/hello", "active-other/silence", "opened-by-command/hello"):
        rep.need("class:" + cls, rep.counters.get("discover_judged:" + cls, 0), 50)
    rep.need("churn_histories_reaching_the_observation_bound", rep.counters.get("churn_histories_reaching_the_observation_bound", 0), 10)
    rep.need("histories_with_16_or_more_distinct_strangers", rep.counters.get("histories_with_16_or_more_distinct_strangers", 0), 40)
    rep.need("discovers_judged_beside_other_interfaces", rep.counters.get("discovers_judged_beside_other_interfaces", 0), 1000)
    rep.need("foreign_service_frames", rep.counters.get("foreign_service_frames", 0), 1000)
    rep.need("opened-by-command-bridged", rep.counters.get("discover_judged:opened-by-command-bridged", 0), 20)
    rep.need("clock_gaps_between_frames", rep.counters.get("clock_gaps_between_frames", 0), 200)
    rep.need("inputs_of_a_second_interface_in_between", rep.counters.get("inputs_of_a_second_interface_in_between", 0), 500)
    # exhaustive single-step sweep (online oracle in C)
    sweeps.run_sweep(ctx, "c05", [], "C05")
    rep.exhaustive = False   # histories are sampled; the step sweep part is exhaustive (see observed.sweep_*)
