"""C01 thorough tier: second compiler, MemorySanitizer, valgrind memcheck, guard-page allocator, libFuzzer."""
import os
import re
import shutil
import subprocess

from .. import harness as H
from ..runner import run_monitored
from .c01 import refine_key


def scenario_to_fuzz(sobj):
    """encode the frame ops of a scenario in the fuzz target's input format"""
    mtu = 1500
    for ln in sobj.lines:
        if ln.startswith("IFACE"):
            m = re.search(r"mtu=(\d+)", ln)
            if m:
                mtu = int(m.group(1))
    hdr = bytearray(8)
    known = [576, 577, 1280, 1500, 1514, 4096, 9000, 9216]
    if mtu in known:
        hdr[0] = known.index(mtu)
    elif mtu < 576:
        hdr[0] = 16
        v = max(68, mtu) - 68
        hdr[1], hdr[2] = v >> 8, v & 255
    else:
        hdr[0] = 8
        v = min(mtu, 9216) - 576
        hdr[1], hdr[2] = v >> 8, v & 255
    out = bytes(hdr)
    for ln in sobj.lines:
        p = ln.split(" ")
        if p[0] in ("F", "W", "LX", "E") and len(p) > 2:
            raw = bytes.fromhex(p[2])[:4000]
            op = {"F": 0, "W": 3, "LX": 4, "E": 7}[p[0]]
            out += bytes([op, len(raw) >> 8, len(raw) & 255]) + raw
        elif p[0] == "K":
            out += bytes([5, 0, 3])
    return out


def msan_pass(ctx, scns, msan=None):
    """MemorySanitizer: uninitialised-value use that red zones cannot see (also in what the core hands to the logger)"""
    if msan is None:
        msan = H.build(ctx.work, "msan")

    def msan_mon(scn, sobj, r, sf, ck):
        r.count("msan_scenarios")
        r.evaluations += len(scn.inputs)
        for key, txt in sf:
            r.violation(refine_key(key, scn, sobj), "scenario %s under MemorySanitizer:\n%s" % (scn.sid, txt), replay=sobj.text())
        if ck and not sf:
            r.count("msan_crash:" + ck)
    run_monitored(ctx, msan, scns, msan_mon, tag="msan", cpu_limit=60)


def run(ctx, scns, monitor):
    rep = ctx.report
    builds = H.build_many(ctx.work, [dict(flavour="asan-clang"), dict(flavour="msan"), dict(flavour="plain")])
    clang_asan, msan, plain = builds

    # 1. second compiler, same monitor
    run_monitored(ctx, clang_asan, scns[:24000], monitor, tag="asan-clang", cpu_limit=30)

    # 2. MemorySanitizer: uninitialised-value use that red zones cannot see
    def msan_mon(scn, sobj, r, sf, ck):
        r.count("msan_scenarios")
        r.evaluations += len(scn.inputs)
        for key, txt in sf:
            r.violation(refine_key(key, scn, sobj), "scenario %s under MemorySanitizer:\n%s" % (scn.sid, txt), replay=sobj.text())
        if ck and not sf:
            r.count("msan_crash:" + ck)
    nodse = [s for s in scns if s.meta["fam"] != "dse-inflated"]
    run_monitored(ctx, msan, scns[:12000], msan_mon, tag="msan", cpu_limit=60)

    # 3. valgrind memcheck on the plain build
    def vg_mon(scn, sobj, r, sf, ck):
        r.count("memcheck_scenarios")
        r.evaluations += len(scn.inputs)
        for key, txt in H.valgrind_findings(scn.stderr):
            r.violation(refine_key(key, scn, sobj), "scenario %s under valgrind memcheck:\n%s" % (scn.sid, txt), replay=sobj.text())
    run_monitored(ctx, plain, scns[:1600], vg_mon, tag="memcheck", cpu_limit=300,
                  wrapper=["valgrind", "-q", "--error-exitcode=0", "--track-origins=no", "--child-silent-after-fork=no"])

    # 4. guard-page allocator: far out-of-bounds accesses of the receive buffer
    def guard_mon(scn, sobj, r, sf, ck):
        r.count("guard_scenarios")
        r.evaluations += len(scn.inputs)
        if ck and ck.startswith("signal"):
            key = H.guard_fault_key(scn.stderr, plain) or ("crash:" + ck)
            r.violation(refine_key(key, scn, sobj), "scenario %s with the receive buffer ending at a PROT_NONE page: %s\n%s"
                        % (scn.sid, ck, scn.stderr[-800:]), replay=sobj.text())
        elif ck:
            r.violation("crash:" + ck, "scenario %s (guard-page run)" % scn.sid, replay=sobj.text())
    run_monitored(ctx, plain, scns, guard_mon, tag="guard", cpu_limit=30, env_extra={"VH_GUARD_RX": "1"})

    run_fuzz(ctx, nodse, int(os.environ.get("VERIF_FUZZ_RUNS", "400000")))
    rep.need("msan_scenarios", rep.counters.get("msan_scenarios", 0), 1000)
    rep.need("memcheck_scenarios", rep.counters.get("memcheck_scenarios", 0), 1000)
    rep.need("guard_scenarios", rep.counters.get("guard_scenarios", 0), 1000)


def run_fuzz(ctx, seeds, runs_per_job, jobs=16):
    """coverage-guided fuzzing (libFuzzer, clang ASan+UBSan), seeded from the scenario corpus, bounded by runs"""
    rep = ctx.report
    fdir = ctx.work.sub("fuzz")
    corpus = os.path.join(fdir, "corpus")
    os.makedirs(corpus, exist_ok=True)
    for k, s in enumerate(seeds[:3000]):
        with open(os.path.join(corpus, "seed%05d" % k), "wb") as f:
            f.write(scenario_to_fuzz(s))
    fz = os.path.join(ctx.work.sub("bin"), "fuzz_target")
    srcs = [os.path.join(H.HARN, x) for x in ("fuzz_target.c", "vh_flow.c", "vport.c")] + [os.path.join(H.REPO, c) for c in H.CORE]
    cmd = ["clang", "-O1", "-g", "-fsanitize=fuzzer,address,undefined", "-fno-sanitize=object-size", "-fno-sanitize-recover=undefined",
           H.HOOK_DEFINE, "-w", "-I" + os.path.join(H.REPO, "lltdResponder"), "-I" + H.HARN, "-o", fz] + srcs
    r = subprocess.run(cmd, stdout=subprocess.PIPE, stderr=subprocess.STDOUT, text=True)
    if r.returncode != 0:
        raise H.BuildError("fuzz target: " + r.stdout[-3000:])
    env = dict(os.environ)
    env["ASAN_OPTIONS"] = "quarantine_size_mb=8:detect_leaks=0"
    p = subprocess.run([fz, corpus, "-runs=%d" % runs_per_job, "-max_len=8192", "-jobs=%d" % jobs, "-workers=%d" % jobs,
                        "-artifact_prefix=" + fdir + "/", "-print_final_stats=1", "-timeout=20"],
                       cwd=fdir, stdout=subprocess.PIPE, stderr=subprocess.STDOUT, text=True, env=env, timeout=6 * 3600)
    execs = 0
    cov = 0
    for fn in os.listdir(fdir):
        if fn.startswith("fuzz-") and fn.endswith(".log"):
            txt = open(os.path.join(fdir, fn), errors="replace").read()
            m = re.findall(r"stat::number_of_executed_units: (\d+)", txt)
            if m:
                execs += int(m[-1])
            m = re.findall(r"cov: (\d+)", txt)
            if m:
                cov = max(cov, int(m[-1]))
            for key, t in H.sanitizer_findings(txt):
                art = re.findall(r"Test unit written to (\S+)", txt)
                replay = "# libFuzzer artifact (hex): %s\n" % (open(art[0], "rb").read().hex() if art and os.path.exists(art[0]) else "?")
                rep.violation(key, "libFuzzer job %s:\n%s" % (fn, t), replay=replay)
            if "ERROR: libFuzzer: timeout" in txt:
                rep.violation("hang:libfuzzer-timeout", "libFuzzer job %s reported a timeout" % fn)
    rep.count("fuzz_executions", execs)
    rep.evaluations += execs
    rep.extra["fuzz_edge_coverage"] = cov
    rep.need("fuzz_executions", execs, runs_per_job * jobs // 2)
    shutil.rmtree(fdir, ignore_errors=True)
