"""C06 - an Emit is executed descriptor by descriptor and then acknowledged."""
import struct

from .. import gen as G
from .. import harness as H
from .. import wire as W
from ..model import MapperModel
from ..runner import run_monitored


def filler(rng, net, m, bridged):
    k = rng.random()
    if k < 0.25:
        return G.f_probe(rng, net, to_me=rng.random() < 0.5)
    if k < 0.4:
        return G.f_hello(rng, net)
    if k < 0.55:
        return G.f_query(rng, net, m, bridged=bridged)
    if k < 0.7:
        return G.f_qlt(rng, net, m, bridged=bridged, typ=rng.choice([0x0E, 0x11, 0x13]), off=rng.choice([0, 10]))
    if k < 0.85:
        return G.f_misc(rng, net, tos=rng.choice([2, 3, 7]))
    return G.f_discover(rng, net, m=m, tos=0, bridged=bridged)


def make_scenarios(ctx, count):
    scns = []
    # every n for MTU 576 and 1500 is covered by construction across scenarios
    plan = [(576, n) for n in range(1, G.cap_emit(576) + 1)] + [(1500, n) for n in range(1, G.cap_emit(1500) + 1)]
    for mtu in (577, 1280, 1514, 4096, 9000, 9216):
        c = G.cap_emit(mtu)
        plan += [(mtu, 1), (mtu, c - 1), (mtu, c)]
    for i in range(count):
        rng = G.rng_for(ctx.seed, "C06", i)
        if i < len(plan):
            mtu, n0 = plan[i]
        else:
            mtu = G.pick_mtu(rng)
            n0 = rng.randint(1, G.cap_emit(mtu))
        cfg = G.rand_cfg(rng, mtu=mtu)
        net = G.Net(rng, cfg["mac"])
        m = rng.randrange(len(net.mappers))
        bridged = rng.random() < 0.35
        frames = [G.f_discover(rng, net, m=m, tos=0, bridged=bridged)]
        kinds = []
        mtu_changes = {}
        mac_changes = {}
        mtu0 = mtu
        for j in range(rng.randint(3, 6)):
            if j > 0 and i >= len(plan) and rng.random() < 0.1:
                # the interface's hardware address is changed while the session runs: emitted frames carry the address the
                # platform reports at that moment
                net.own = G.related_mac(rng, net.own) if rng.random() < 0.5 else G.rand_mac(rng)
                mac_changes[len(frames)] = net.own
            if j > 0 and i >= len(plan) and rng.random() < 0.15:
                # the link's MTU changes while the interface lives on: how many descriptors an Emit may carry is decided by
                # the MTU at the time it arrives
                mtu = rng.choice([576, 1500, 9000, G.pick_mtu(rng)])
                mtu_changes[len(frames)] = mtu
            for _ in range(rng.randint(0, 3)):
                frames.append(filler(rng, net, m, bridged))
            r = rng.random()
            n = n0 if j == 0 else rng.choice([1, 2, 3, rng.randint(1, G.cap_emit(mtu))])
            seq = rng.choice([1, 0xFFFF, 0x8000, rng.randint(1, 0xFFFF)])
            if 0.70 <= r < 0.75 and j > 0:
                cap = G.cap_emit(mtu)
                full, _ = G.f_emit(rng, net, m, seq=seq, n=cap, bridged=bridged)
                tail = bytes([rng.randint(0, 1), 0]) + rng.choice(net.strangers) + net.own
                b = bytearray((full + tail * 2)[:mtu])
                struct.pack_into(">H", b, 32, cap + 1)
                frames.append(bytes(b))
            elif r < 0.75 or j == 0:
                fr, _ = G.f_emit(rng, net, m, seq=seq, n=n, bridged=bridged)
                frames.append(fr)
            else:
                # inflated count over an adversarial tail: first a full-size frame whose bytes look like
                # valid descriptors, then a short Emit declaring more than it carries
                cap = G.cap_emit(mtu)
                full, _ = G.f_emit(rng, net, m, seq=seq, n=cap, bridged=bridged)
                junk = W.base(net.own, rng.choice(net.strangers), 2, 0x33, net.own, net.strangers[0], 1) + full[32:]
                frames.append(junk[:mtu])
                carried = rng.choice([0, 1, 2])
                small, _ = G.f_emit(rng, net, m, seq=seq, n=carried, bridged=bridged)
                b = bytearray(small)
                wrap16 = [(65536 * j + 13) // 14 + rng.randint(0, 30) for j in range(1, 14)]      # n*14 just past a multiple of 2^16
                struct.pack_into(">H", b, 32, rng.choice([carried + 1, cap + 1, cap + 2, 0xFFFF, 0x8000, 0x4000, 1000, rng.choice(wrap16),
                                                          rng.randint(cap + 1, 0xFFFF)]) & 0xFFFF)
                frames.append(bytes(b))
        s = H.Scenario("e%d" % i, meta=dict(frames=frames, own=cfg["mac"], mtu=mtu0, rxseed=cfg["rxseed"], mtu_changes=mtu_changes,
                                            mac_changes=mac_changes))
        s.iface(0, **H.iface_kw(cfg)).glob(**G.global_kw(G.rand_global(rng, icon_size=100)))
        s.add("OPT txcap=3000")
        if i % 3 == 2:
            # transmitting takes time and the clock moves while the core works: pauses are still waited in full
            s.add("OPT txcost=%d clocktick=%d" % (rng.choice([1, 4, 30]), rng.choice([0, 1])))
            s.meta["timed_port"] = True
        shadow = None
        if i % 4 == 1:
            cfg1, fr1 = G.shadow_iface(rng, cfg, max(5, len(frames) // 2))
            s.iface(1, **H.iface_kw(cfg1))
            shadow = (1, fr1)
        s.frames(0, frames, rng if i % 2 else None, p_gap=0.25, base=True, shadow=shadow,
                 inserts={k: (["MTU 0 %d %d" % (mtu_changes[k], cfg["rxseed"])] if k in mtu_changes else []) +
                          (["SET 0 mac=%s" % mac_changes[k].hex()] if k in mac_changes else [])
                          for k in set(mtu_changes) | set(mac_changes)})
        scns.append(s)
    return scns


def make_session_scenarios(ctx, count):
    """ordinary multi-mapper sessions; every Emit that comes from the (model's) active mapper is judged the same way"""
    scns = []
    for i in range(count):
        rng = G.rng_for(ctx.seed, "C06s", i)
        mtu = G.pick_mtu(rng)
        cfg = G.rand_cfg(rng, mtu=mtu)
        net = G.Net(rng, cfg["mac"])
        frames = G.session_history(rng, net, mtu, rng.randint(30, 70), p_mut=0.0, p_noise=0.0, p_misc=0.05, max_emit=4)
        s = H.Scenario("es%d" % i, meta=dict(frames=frames, own=cfg["mac"], mtu=mtu, rxseed=cfg["rxseed"]))
        s.iface(0, **H.iface_kw(cfg)).glob(**G.global_kw(G.rand_global(rng, icon_size=100)))
        s.add("OPT txcap=3000")
        if i % 3 == 2:
            # transmitting takes time and the clock moves while the core works: pauses are still waited in full
            s.add("OPT txcost=%d clocktick=%d" % (rng.choice([1, 4, 30]), rng.choice([0, 1])))
            s.meta["timed_port"] = True
        s.frames(0, frames, rng if i % 2 else None, p_gap=0.25, base=True)
        scns.append(s)
    return scns


def monitor(scn, sobj, rep, sf, ck):
    frames = sobj.meta["frames"]
    own, mtu = sobj.meta["own"], sobj.meta["mtu"]
    mm = MapperModel()
    cap = G.cap_emit_wire(mtu)
    judged = 0
    eth_seen = set()      # Ethernet sources the active mapper has used in this session
    for idx, inp in enumerate(scn.inputs):
        if idx >= len(frames):
            break
        fr = frames[idx]
        if idx in sobj.meta.get("mac_changes", {}):
            own = sobj.meta["mac_changes"][idx]
            rep.count("address_changed_mid_history")
        if idx in sobj.meta.get("mtu_changes", {}):
            mtu = sobj.meta["mtu_changes"][idx]
            cap = G.cap_emit_wire(mtu)
            rep.count("mtu_changed_mid_history")
        was = (mm.state, mm.mapper)
        mm.step(fr)
        if (mm.state, mm.mapper) != was and not (was[0] == MapperModel.SOFT and mm.state == MapperModel.ACTIVE and was[1] == mm.mapper):
            eth_seen = set()
        if len(fr) >= 32 and fr[15] in (0, 1) and mm.mapper is not None and fr[24:30] == mm.mapper:
            eth_seen.add(fr[6:12])
        if len(fr) < 34 or fr[15] != 0 or fr[17] != W.OP_EMIT:
            if inp.out is None:
                break
            continue
        if not (mm.state == MapperModel.ACTIVE and fr[24:30] == mm.mapper):
            if inp.out is None:
                break
            continue
        seq = struct.unpack(">H", fr[30:32])[0]
        declared = struct.unpack(">H", fr[32:34])[0]
        carried = (len(fr) - 34) // 14
        nsends = inp.out[0] if inp.out else len(inp.sends())

        def bad(key, msg):
            rep.violation("C06:" + key, "scenario %s input %d: Emit seq=%d declared=%d carried=%d mtu=%d: %s"
                          % (scn.sid, idx + 1, seq, declared, carried, mtu, msg), replay=sobj.text())
        if declared > carried:
            rep.count("inflated_emits")
            rep.evaluations += 1
            if nsends > cap + 1:
                bad("inflated-count-emits-more-than-a-full-frame", "%s%d frames sent, a maximum-size Emit could request %d+1"
                    % ("" if inp.out else "at least ", nsends, cap))
            else:
                rep.nontrivial(("inflated", mtu, declared, carried))
            if inp.out is None:
                break
            continue
        if inp.out is None:
            break
        descs = [(fr[34 + 14 * k], fr[35 + 14 * k], fr[36 + 14 * k:42 + 14 * k], fr[42 + 14 * k:48 + 14 * k]) for k in range(declared)]
        if declared < 1 or seq == 0 or any(d[0] not in (0, 1) for d in descs):
            continue
        judged += 1
        rep.evaluations += 1
        rep.count("emits_judged")
        rep.count("emit_n:%s" % ("1" if declared == 1 else "cap" if declared == cap else "mid"))
        # ordered port calls
        calls = [e for e in inp.ev if e[0] in ("T", "Z")]
        pos = 0
        ok = True
        for k, (kind, pause, dsrc, ddst) in enumerate(descs):
            slept = 0
            while pos < len(calls) and calls[pos][0] == "Z":
                slept += calls[pos][1]
                pos += 1
            if pos >= len(calls):
                bad("fewer-frames-than-descriptors", "only %d frames for %d descriptors" % (sum(1 for c in calls if c[0] == 'T'), declared))
                ok = False
                break
            raw = calls[pos][3]
            pos += 1
            if slept != pause:
                bad("pause-not-honoured", "descriptor %d: slept %d ms before sending, pause is %d ms" % (k, slept, pause))
                ok = False
            if raw is None or len(raw) != 32:
                bad("probe-frame-length", "descriptor %d: frame of %s bytes" % (k, len(raw) if raw else None))
                ok = False
                continue
            f = W.decode(raw)
            want_op = W.OP_PROBE if kind == 1 else W.OP_TRAIN
            if f.opcode != want_op:
                bad("wrong-kind" if f.opcode in (W.OP_PROBE, W.OP_TRAIN) else "wrong-opcode-in-sequence",
                    "descriptor %d kind %d: opcode %d sent" % (k, kind, f.opcode))
                ok = False
            if f.eth_src != dsrc or f.eth_dst != ddst:
                bad("ethernet-addresses-not-from-descriptor", "descriptor %d: eth %s->%s, descriptor says %s->%s"
                    % (k, f.eth_src.hex(), f.eth_dst.hex(), dsrc.hex(), ddst.hex()))
                ok = False
            if f.real_src != own:
                bad("real-source-not-own", "descriptor %d: real source %s" % (k, f.real_src.hex()))
                ok = False
        if not ok:
            continue
        rest = calls[pos:]
        tail_sends = [c for c in rest if c[0] == "T"]
        if len(tail_sends) != 1:
            bad("not-exactly-one-ack" if len(tail_sends) == 0 or all(t[3] and len(t[3]) >= 18 and t[3][17] == W.OP_ACK for t in tail_sends)
                else "extra-frames-after-descriptors", "%d frames after the %d descriptor frames" % (len(tail_sends), declared))
            continue
        raw = tail_sends[0][3]
        f = W.decode(raw) if raw else None
        if f is None or len(raw) != 32 or f.opcode != W.OP_ACK:
            bad("last-frame-not-an-ack", "last frame: %s" % (raw.hex() if raw else None))
            continue
        if f.seq != seq:
            bad("ack-sequence-number", "ACK seq %d, Emit seq %d" % (f.seq, seq))
        if f.real_src != own:
            bad("ack-real-source-not-own", f.real_src.hex())
        if f.real_dst != mm.mapper:
            bad("ack-not-addressed-to-mapper", "ACK real destination %s, mapper %s" % (f.real_dst.hex(), mm.mapper.hex()))
        if f.eth_dst not in (mm.mapper, mm.apparent, fr[6:12]) and f.eth_dst not in eth_seen:
            bad("ack-ethernet-destination", "ACK Ethernet destination %s; mapper real %s, Ethernet sources it used in this session: %s"
                % (f.eth_dst.hex(), mm.mapper.hex(), sorted(x.hex() for x in eth_seen)))
        rep.nontrivial(("emit", mtu, declared, fr[34:34 + 14 * min(declared, 4)]))
    if judged and len(rep.samples) < 2:
        rep.sample(dict(scenario=scn.sid, mtu=mtu, emits_judged=judged,
                        first_emit=next((f.hex()[:160] for f in frames if len(f) > 34 and f[17] == 2), None)))


def run(ctx):
    rep = ctx.report
    rep.rule = ("Emits from the active mapper after an accepted Discover (direct and bridged), every n in 1..cap for MTU 576 "
                "and 1500, boundary n for other MTUs, random descriptor tuples and prefixes; ordered (sleep, send) port calls "
                "are matched against the descriptor list; inflated counts over an adversarial stale tail are judged on the "
                "number of frames; distinct by (mtu, n, first descriptors)")
    rep.assumptions = ["real destination of Probe/Train is not judged here (C10's question)",
                       "zero-length sleeps may be omitted; unknown kinds and sequence number 0 are outside the domain"]
    binary, plain = H.build_many(ctx.work, [dict(flavour="asan"), dict(flavour="plain")])
    scns = make_scenarios(ctx, ctx.n(420, 12000)) + make_session_scenarios(ctx, ctx.n(300, 8000))
    run_monitored(ctx, binary, scns, monitor, tag="emit")
    # the same workload without red zones: an over-long descriptor walk is not cut short by the sanitizer,
    # so the number of frames it would really emit becomes observable
    run_monitored(ctx, plain, scns, monitor, tag="emit-plain")
    from . import c06_linux
    c06_linux.run(ctx)
    rep.rule += ("; plus the Linux port under a virtual CLOCK_MONOTONIC with the C library's sleep semantics: three-descriptor Emits "
                 "at every phase of the second, each transmit no earlier than the pauses before it add up to")
    rep.assumptions.append("Linux part: descriptor kinds fixed (Train, Probe, Train); the virtual clock charges 1 us per clock read")
    c = rep.counters
    rep.need("emits_judged", c.get("emits_judged", 0), 1000)
    rep.need("inflated_emits", c.get("inflated_emits", 0), 100)
    rep.need("emit_n:cap", c.get("emit_n:cap", 0), 5)
    rep.need("clock_gaps_between_frames", rep.counters.get("clock_gaps_between_frames", 0), 200)
    rep.need("inputs_of_a_second_interface_in_between", rep.counters.get("inputs_of_a_second_interface_in_between", 0), 500)
    rep.need("address_changed_mid_history", c.get("address_changed_mid_history", 0), 20)
    rep.need("mtu_changed_mid_history", c.get("mtu_changed_mid_history", 0), 20)
