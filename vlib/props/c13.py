"""C13 - RepeatBand back-off follows its formula and is monotone in load."""
import math

from .. import harness as H
from . import sweeps


CLOCK_BASES = [5000, (1 << 32) - 30000, (1 << 32) - 3000, (1 << 32) + 5, 1 << 40, (1 << 63) + 12345]


def boundary_values():
    vals = set(range(0, 70001))
    for k in range(0, 33):
        for d in (-2, -1, 0, 1, 2):
            v = (1 << k) + d
            if 0 <= v < 2 ** 32:
                vals.add(v)
    root = math.isqrt(2 ** 32 // 45)
    for d in range(-4, 5):
        vals.add(root + d)
    for j in range(1, 4097):
        rj = math.isqrt(2 ** 32 * j // 45)
        for d in (-2, -1, 0, 1, 2):
            v = rj + d
            if 0 <= v < 2 ** 32:
                vals.add(v)
    for k in range(1, 46):                         # ALPHA * r just past k * 2^32 (a 32-bit accumulator wraps to a small value)
        base = (k << 32) // 45
        for d in range(-3, 60):
            v = base + d
            if 0 <= v < 2 ** 32:
                vals.add(v)
    for k in range(1, 700):                        # and just past k * 2^16
        base = (k << 16) // 45
        for d in range(-1, 3):
            vals.add(base + d)
    for j in range(0, 300000):
        vals.add((j * 14321) % (2 ** 32))          # deterministic spread
        vals.add((2 ** 32 - 1) - j * 7)
    return sorted(vals)


def run(ctx):
    rep = ctx.report
    rep.rule = ("online oracle (64/128-bit arithmetic, constants literal from the documentation) after band_update_stats "
                "and band_choose_hello_time for each r; a case is non-trivial when r>0 and begun (the formula applies); "
                "cases are distinct by construction (one per (r, begun, prior count))")
    rep.assumptions = ["band_state is driven through its public fields, as the tick does"]
    if ctx.quick:
        vals = boundary_values()
        data = "\n".join(map(str, vals)) + "\n"
        binary = H.build(ctx.work, "asan", program="vh_sweep", esp32=False)
        for begun, ni0 in ((1, 45), (1, 10000), (0, 45), (0, 46), (0, 9999), (0, 10000)):
            sweeps.run_sweep(ctx, "c13v", [[begun, ni0]], "C13", stdin_data=data, binary=binary)
        # the same values with the monotonic clock at other origins (a host that has been up for 49.7 days and more)
        for base in CLOCK_BASES[1:]:
            sweeps.run_sweep(ctx, "c13v", [[1, 45, base]], "C13", stdin_data=data, binary=binary)
        rep.extra["clock_origins_ms"] = CLOCK_BASES
        sweeps.run_sweep(ctx, "c13v", [[1, 45]], "C13", stdin_data=data, flavour="msan", sanitizer_is_violation=True)
        rep.need("values", rep.counters.get("sweep_c13v_cases", 0), 300000 * (6 + len(CLOCK_BASES) - 1) // 7)
        rep.sample(dict(begun=1, prior_count=45, r_values=[vals[k] for k in (0, 1, 2, 46, 70001, len(vals) // 2, len(vals) - 2, len(vals) - 1)],
                        oracle="Ni == min(10000, 45*r*r) in 128-bit arithmetic; r reset to 0; next Hello >= max(ceil(8*Ni/3), 6) ms away; "
                               "Ni and the interval never decrease as r (>= 1) ascends"))
    else:
        binary = H.build(ctx.work, "plain", program="vh_sweep", esp32=False)
        step = 2 ** 32 // 16
        args = [[lo, lo + step, 1, 45, CLOCK_BASES[k % len(CLOCK_BASES)]] for k, lo in enumerate(range(0, 2 ** 32, step))]
        rep.extra["clock_origins_ms"] = CLOCK_BASES
        sweeps.run_sweep(ctx, "c13", args, "C13", binary=binary)
        rep.exhaustive = True
        for ni0 in (45, 46, 9999, 10000):
            sweeps.run_sweep(ctx, "c13", [[lo, lo + 2 ** 20, 0, ni0] for lo in range(0, 2 ** 24, 2 ** 20)], "C13", binary=binary)
        sweeps.run_sweep(ctx, "c13", [[lo, lo + 2 ** 20, 1, 10000] for lo in range(0, 2 ** 24, 2 ** 20)], "C13", binary=binary)
        # the same boundary values under ASan/UBSan
        vals = boundary_values()
        data = "\n".join(map(str, vals)) + "\n"
        b2 = H.build(ctx.work, "asan", program="vh_sweep", esp32=False)
        for base in CLOCK_BASES:
            sweeps.run_sweep(ctx, "c13v", [[1, 45, base]], "C13", stdin_data=data, binary=b2)
        rep.need("values", rep.counters.get("sweep_c13_cases", 0), 2 ** 32)
    from . import c13_hist
    c13_hist.run(ctx)
