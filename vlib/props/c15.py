"""C15 - the session automaton follows the LLTD session life-cycle."""
from . import sweeps


def run(ctx):
    rep = ctx.report
    rep.rule = ("exhaustive single steps: 4 states x session events 0..7 x elapsed {0,t-1,t,t+1,10t}; "
                "non-trivial = steps that change state as the statement's table says")
    sweeps.run_sweep(ctx, "c15", [], "C15")
    rep.exhaustive = True
    rep.need("steps", rep.counters.get("sweep_c15_cases", 0), 150)
