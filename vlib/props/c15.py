"""C15 - the session automaton follows the LLTD session life-cycle."""
from . import sweeps


def run(ctx):
    rep = ctx.report
    rep.rule = ("exhaustive single steps: 4 states x session events 0..7 x timer armed at clock reading {100000, 0, 1, 4294960, 4294967, 4294968, 2^40} s x elapsed {0,t-1,t,t+1,10t} and idle periods of 60 s, 1 h, 32767..32769 s, 65535..65537 s, 1 day, 1 week, 2^31-1, 2^31, 2^32-1..2^32+1, 2^32+40000 and 2^40 s; "
                "non-trivial = steps that change state as the statement's table says; plus every two-step history over the same grid "
                "(4 x 8 x 5 x 8 x 5), each with the two inputs at five pairs of sub-second phases (7/7, 900/50, 50/900, 999/0, 0/999 ms into their second), and a check that every call restarts the inactivity timer")
    sweeps.run_sweep(ctx, "c15", [], "C15")
    # all two-step histories over the same grid: the second step's timeout must run from the first *input*
    sweeps.run_sweep(ctx, "c15h", [], "C15")
    # the same sweeps under MemorySanitizer: a transition decided by memory the constructor never wrote (a table scanned
    # one cell too far, a field left out of the initialisation) is reported at the deciding branch
    sweeps.run_sweep(ctx, "c15", [], "C15", flavour="asan-uchar", sanitizer_is_violation=True)      # plain char unsigned (ARM-class ABIs)
    sweeps.run_sweep(ctx, "c15h", [], "C15", flavour="asan-uchar", sanitizer_is_violation=True)
    sweeps.run_sweep(ctx, "c15", [], "C15", flavour="msan", sanitizer_is_violation=True)
    sweeps.run_sweep(ctx, "c15h", [], "C15", flavour="msan", sanitizer_is_violation=True)
    rep.exhaustive = True
    rep.need("phased_history_cases", rep.counters.get("sweep_c15h_phased_cases", 0), 20000)
    rep.need("steps", rep.counters.get("sweep_c15_cases", 0), 4500)
