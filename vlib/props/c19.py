"""C19 - memory use is bounded and nothing is leaked."""
from .. import gen as G
from .. import harness as H
from .. import wire as W
from ..model import RxBuf
from ..runner import run_monitored

PLATEAU_AT = 16384          # any cap up to this many retained observations is accepted


def make_mixed(ctx, count, length):
    scns = []
    for i in range(count):
        rng = G.rng_for(ctx.seed, "C19m", i)
        cfg = G.rand_cfg(rng, mtu=rng.choice([576, 1500, 9216, rng.randint(576, 9216), rng.choice([68, 72, 100, 128, 200, 300]), rng.choice(G.MTUS_HUGE)]))
        net = G.Net(rng, cfg["mac"])
        glob = G.rand_global(rng, icon_size=rng.choice([0, 10, 2000, 30000, 32768, 32769, 40000, 70000]))
        if rng.random() < 0.3:
            # names longer than one response at this MTU: their transfers take several requests (and are often left unfinished)
            glob["fname"] = W.fill_stream(rng.choice([cfg["mtu"], 3 * cfg["mtu"], 5000]), rng.randint(1, 10 ** 6))
        frames = []
        while len(frames) < length:
            chunk = G.session_history(rng, net, cfg["mtu"], min(400, length - len(frames)), p_mut=0.15, p_noise=0.03,
                                      max_emit=2, probes_to_me=0.8)
            frames += chunk
        s = H.Scenario("m%d" % i, meta=dict(kind="mixed", frames=frames, cfg=cfg))
        s.add("FILL %d" % rng.choice([165, 90]))
        s.iface(0, **H.iface_kw(cfg)).glob(**G.global_kw(glob))
        two = i % 2 == 1
        if two:
            # a second interface of the same core sees a little traffic first (its record sits behind ours in the core's list
            # or in front of it - both orders occur across scenarios)
            cfg2 = G.rand_cfg(rng, mtu=1500)
            s.iface(1, **H.iface_kw(cfg2))
        s.add("OPT sleep=0 txhex=0 txcap=0 ledger=0")
        if two and rng.random() < 0.5:
            s.frame(1, W.discover(net.mappers[1], 3, 3, [], tos=0))
            s.frame(1, W.reset(net.mappers[1], tos=0))
        s.add("OPT ledger=1")
        s.add("MARK start")
        s.frames(0, frames, rng if i % 4 >= 2 else None, p_gap=0.1)
        s.frame(0, W.reset(net.mappers[0], tos=0))
        s.meta["frames"] = frames + [W.reset(net.mappers[0], tos=0)]
        if two:
            s.add("OPT ledger=0")
            s.frame(1, W.discover(net.mappers[1], 3, 4, [], tos=0))
            s.frame(1, W.probe(cfg2["mac"], G.rand_mac(rng), cfg2["mac"], G.rand_mac(rng)))
            s.frame(1, W.reset(net.mappers[1], tos=0))
            s.add("LEDGER")
            s.meta["two"] = True
        scns.append(s)
    return scns


def make_churn(ctx, count):
    """rounds of observation churn (G.obs_churn: the record steered to powers of two, multiples of 256 and the bound, drained in
    parts, poked at every level), each round closed by a topology Reset: after every Reset the baseline, and never more live
    memory than the first rounds needed"""
    scns = []
    for i in range(count):
        rng = G.rng_for(ctx.seed, "C19churn", i)
        cfg = G.rand_cfg(rng, mtu=rng.choice([576, 1500, 1500, 9000]))
        net = G.Net(rng, cfg["mac"])
        m = rng.randrange(len(net.mappers))
        s = H.Scenario("ch%d" % i, meta=dict(kind="churn"))
        s.iface(0, **H.iface_kw(cfg)).glob(**G.global_kw(G.rand_global(rng, icon_size=100)))
        s.add("OPT sleep=0 txhex=0 txcap=0 ledger=1")
        rounds = 0
        for rnd in range(ctx.n(4, 8)):
            frames, mtu_changes, st = G.obs_churn(rng, net, m, cfg["mtu"], mode=["boundaries", "sawtooth", "small", "flood"][(i + rnd) % 4],
                                                 budget=ctx.n(1500, 3000))
            for k, fr in enumerate(frames):
                if k in mtu_changes:
                    s.add("MTU 0 %d %d" % (mtu_changes[k], cfg["rxseed"]))
                s.frame(0, fr)
            s.add("MTU 0 %d %d" % (cfg["mtu"], cfg["rxseed"]))
            s.frame(0, W.reset(net.mappers[m], tos=0))
            s.add("MARK round")
            rounds += 1
        s.meta["rounds"] = rounds
        scns.append(s)
    return scns


def make_baseline():
    s = H.Scenario("base", meta=dict(kind="baseline"))
    own = bytes.fromhex("02aabbccdd10")
    s.iface(0, mtu=1500, mac=own).glob(hostname=b"h")
    s.add("OPT sleep=0 txhex=0 ledger=1")
    s.frame(0, W.reset(bytes.fromhex("02aabbccdd11"), tos=0))
    return s


def make_flood(ctx, n, idx=0):
    rng = G.rng_for(ctx.seed, "C19f", idx)
    cfg = G.rand_cfg(rng, mtu=1500)
    own = cfg["mac"]
    m = G.rand_mac(rng)
    s = H.Scenario("flood%d" % idx, meta=dict(kind="flood", n=n))
    s.iface(0, **H.iface_kw(cfg)).glob(**G.global_kw(G.rand_global(rng, icon_size=100)))
    s.add("OPT sleep=0 txhex=0 txcap=0 ledger=1")
    s.frame(0, W.discover(m, 1, 1, [], tos=0))
    for j in range(n):
        src = bytes([2]) + (j + 1).to_bytes(5, "big")
        real = bytes([6]) + ((j * 7 + 3) % (1 << 24)).to_bytes(5, "big")
        s.frame(0, W.probe(own, src, own, real, train=(j % 3 == 0)))
    s.frame(0, W.reset(m, tos=0))
    return s


def make_cyclic_flood(ctx, total, idx=1):
    """rounds of (many distinct probes, one Query, a few large-TLV requests): the bound must hold across Queries too"""
    rng = G.rng_for(ctx.seed, "C19c", idx)
    cfg = G.rand_cfg(rng, mtu=rng.choice([576, 1500]))
    own = cfg["mac"]
    m = G.rand_mac(rng)
    s = H.Scenario("cyc%d" % idx, meta=dict(kind="flood", n=0, cyclic=True))
    s.iface(0, **H.iface_kw(cfg)).glob(**G.global_kw(G.rand_global(rng, icon_size=500)))
    s.add("OPT sleep=0 txhex=0 txcap=0 ledger=1")
    s.frame(0, W.discover(m, 1, 1, [], tos=0))
    n = 0
    seq = 1
    per = rng.choice([1100, 1500])
    while n < total:
        for j in range(per):
            src = bytes([2]) + (n + 1).to_bytes(5, "big")
            real = bytes([6]) + ((n * 5 + 1) % (1 << 24)).to_bytes(5, "big")
            s.frame(0, W.probe(own, src, own, real, train=(n % 2 == 0)))
            n += 1
        seq += 1
        s.frame(0, W.query(own, m, seq))
        n += 1
    s.meta["n"] = n
    s.frame(0, W.reset(m, tos=0))
    return s


def make_multi_iface(ctx, rounds, idx=0):
    """several interfaces served by one core: rounds of (Discover, probes, icon request) on each, then a topology
    Reset on each in varying order; after every round of Resets exactly one record per interface may remain"""
    rng = G.rng_for(ctx.seed, "C19i", idx)
    nif = rng.choice([2, 3, 4])
    cfgs = [G.rand_cfg(rng, mtu=rng.choice([576, 1500])) for _ in range(nif)]
    m = G.rand_mac(rng)
    s = H.Scenario("multi%d" % idx, meta=dict(kind="multi", nif=nif, rounds=rounds))
    for k, c in enumerate(cfgs):
        s.iface(k, **H.iface_kw(c))
    s.glob(**G.global_kw(G.rand_global(rng, icon_size=rng.choice([300, 4000]))))
    s.add("OPT sleep=0 txhex=0 txcap=0 ledger=1")
    for r in range(rounds):
        order = list(range(nif))
        rng.shuffle(order)
        for k in order:
            own = cfgs[k]["mac"]
            s.frame(k, W.discover(m, 1 + r % 5, r & 0xFFFF, [], tos=0))
            for j in range(rng.randint(0, 6)):
                s.frame(k, W.probe(own, G.rand_mac(rng), own, G.rand_mac(rng)))
            if rng.random() < 0.7:
                s.frame(k, W.qlt(own, m, 1 + (r % 60000), 0x0E, 0))
        rng.shuffle(order)
        for k in order:
            s.frame(k, W.reset(m, tos=0))
        s.add("MARK round")
    return s


def make_repeat(ctx, count, k, faulty=False):
    """the same non-Probe request K times in a fixed state; faulty: while allocations keep failing (every p-th one, or each
    with probability 1/p), as on a machine that is short of memory"""
    scns = []
    for i in range(count):
        rng = G.rng_for(ctx.seed, "C19rf" if faulty else "C19r", i)
        cfg = G.rand_cfg(rng, mtu=rng.choice([576, 1500, 9216]))
        net = G.Net(rng, cfg["mac"])
        glob = G.rand_global(rng, icon_size=rng.choice([0, 500, 20000, 40000, 65536]))
        which = ["discover", "emit", "query", "qlt-icon", "qlt-fname", "qlt-hwid", "qlt-unknown", "reset", "charge", "hello",
                 "foreign-tos", "discover-quick", "qlt-quick"][i % 13]
        m = 0
        pre = [G.f_discover(rng, net, m=m, tos=0)] + [G.f_probe(rng, net, to_me=True) for _ in range(rng.randint(0, 5))]
        fr = {"discover": lambda: G.f_discover(rng, net, m=m, tos=0),
              "discover-quick": lambda: G.f_discover(rng, net, m=m, tos=1),
              "emit": lambda: G.f_emit(rng, net, m, n=3)[0],
              "query": lambda: G.f_query(rng, net, m),
              "qlt-icon": lambda: G.f_qlt(rng, net, m, typ=0x0E, off=0),
              "qlt-quick": lambda: G.f_qlt(rng, net, m, typ=0x0E, off=0, tos=1),
              "qlt-fname": lambda: G.f_qlt(rng, net, m, typ=0x11, off=0),
              "qlt-hwid": lambda: G.f_qlt(rng, net, m, typ=0x13, off=0),
              "qlt-unknown": lambda: G.f_qlt(rng, net, m, typ=0x77, off=0),
              "reset": lambda: G.f_reset(rng, net, m=m),
              "charge": lambda: W.simple(W.OP_CHARGE, net.own, net.mappers[m]),
              "hello": lambda: G.f_hello(rng, net),
              "foreign-tos": lambda: G.f_misc(rng, net, opcode=rng.randint(0, 12), tos=2)}[which]()
        s = H.Scenario("%s%d" % ("repf" if faulty else "rep", i), meta=dict(kind="repeat", which=which, npre=len(pre), k=k, faulty=faulty))
        s.iface(0, **H.iface_kw(cfg)).glob(**G.global_kw(glob))
        s.add("OPT sleep=0 txhex=0 txcap=0 ledger=1")
        for p in pre:
            s.frame(0, p)
        if faulty:
            s.add("FAULT malloc %d %d" % (rng.choice([2, 2, 3, 4, 5, 7]), rng.choice([2, 2, 3])))
        for _ in range(k):
            s.frame(0, fr)
        if faulty:
            s.add("CLEAR")
            s.frame(0, W.reset(net.mappers[m], tos=0))
        scns.append(s)
    return scns


def lsan_keys(sf):
    return [(k, t) for k, t in sf if k.startswith("lsan:")]


def monitor(scn, sobj, rep, sf, ck):
    kind = sobj.meta["kind"]
    rep.count("scenarios:" + kind)
    for key, txt in lsan_keys(sf):
        rep.violation("C19:" + key, "scenario %s: LeakSanitizer at process exit:\n%s" % (scn.sid, txt[:1500]))
    leds = [i.led for i in scn.inputs if i.led is not None]
    if not leds:
        return
    if kind == "mixed":
        start = dict((lab, pos) for pos, lab in scn.marks).get("start", 0)
        pre_live = 0
        mixed_inputs = [i for i in scn.inputs[start:] if i.iface == 0]
        if sobj.meta.get("two") and scn.clean and scn.ledgers:
            fin = scn.ledgers[-1][1]
            rep.count("two_interface_histories")
            if fin[0] != 2:
                rep.violation("C19:allocations-survive-reset:several-interfaces",
                              "scenario %s: two interfaces, both reset at the end: %d allocations / %d bytes live (one record per "
                              "interface expected)" % (scn.sid, fin[0], fin[1]), replay=None)
    rep.evaluations += len(leds)
    if kind == "baseline":
        rep.extra["baseline_after_reset"] = dict(live_allocations=leds[-1][0], live_bytes=leds[-1][1])
        stash(rep)["baseline"] = leds[-1][:2]
        return
    final = leds[-1]
    if kind in ("mixed", "flood") and scn.clean and not sobj.meta.get("two"):
        stash(rep).setdefault("after_reset", []).append((scn.sid, final[0], final[1]))
    if kind == "flood":
        n = sobj.meta["n"]
        # inputs: Discover, n probes, Reset
        series = [l[1] for l in leds[1:1 + n]]
        counts = [l[0] for l in leds[1:1 + n]]
        rep.count("flood_observations", len(series))
        tag = "cyclic_flood" if sobj.meta.get("cyclic") else "flood"
        rep.extra[tag + "_live_bytes_at"] = {str(k): series[k - 1] for k in (1, 1024, 4096, 16384, len(series)) if 0 < k <= len(series)}
        rep.extra[tag + "_high_water_bytes"] = max(l[3] for l in leds)
        if len(series) > PLATEAU_AT:
            ref = max(series[:PLATEAU_AT])
            worst = max(series[PLATEAU_AT:])
            if worst > ref:
                rep.violation("C19:retained-memory-grows-with-history:%s" % ("probe-flood-with-queries" if sobj.meta.get("cyclic") else "probe-flood"),
                              "flood of %d Probes with pairwise distinct sources (%s): at most %d live bytes during the first %d frames, "
                              "%d later (live allocations %d -> %d): retained state keeps growing"
                              % (len(series), "a Query every ~1100 frames" if sobj.meta.get("cyclic") else "no Query", ref, PLATEAU_AT,
                                 worst, max(counts[:PLATEAU_AT]), max(counts[PLATEAU_AT:])),
                              replay="# %s\n" % "flood scenario: Discover, then %d Probes with distinct (Ethernet source, real source), no Query" % n)
            else:
                rep.nontrivial(("flood", len(series), ref))
                rep.count("plateau_checked")
        return
    if kind == "churn":
        per_round = []
        for pos, lab in scn.marks:
            if lab == "round" and pos > 0 and scn.inputs[pos - 1].led is not None:
                per_round.append(scn.inputs[pos - 1].led)
        rep.count("churn_rounds", len(per_round))
        for r, led in enumerate(per_round):
            # (what an interface keeps after a Reset is judged against the baseline interface further down; here: the same after
            # every round)
            if (led[0], led[1]) != (per_round[0][0], per_round[0][1]):
                rep.violation("C19:allocations-survive-reset:after-observation-churn",
                              "scenario %s: round %d of observation churn (fill levels, partial drains, re-sent observations) closed by "
                              "a topology Reset: %d allocations / %d bytes are live, after the first round it was %d / %d"
                              % (scn.sid, r + 1, led[0], led[1], per_round[0][0], per_round[0][1]), replay=sobj.text())
                break
        else:
            if per_round:
                if scn.clean:
                    stash(rep).setdefault("after_reset", []).append((scn.sid, per_round[-1][0], per_round[-1][1]))
                rep.nontrivial(("churn", scn.sid, len(per_round)))
        return
    if kind == "multi":
        nif = sobj.meta["nif"]
        base = stash(rep).get("baseline")
        per_round = []
        for pos, lab in scn.marks:
            if lab == "round" and pos > 0 and scn.inputs[pos - 1].led is not None:
                per_round.append(scn.inputs[pos - 1].led)
        rep.count("multi_iface_rounds", len(per_round))
        if per_round:
            first = per_round[0]
            worst = max(per_round, key=lambda l: l[1])
            if first[0] != nif:
                rep.violation("C19:allocations-survive-reset:several-interfaces",
                              "scenario %s: %d interfaces, after the first round of Resets %d allocations / %d bytes are live "
                              "(one constant record per interface expected)" % (scn.sid, nif, first[0], first[1]), replay=sobj.text())
            elif worst[1] > first[1]:
                rep.violation("C19:retained-memory-grows-with-history:several-interfaces",
                              "scenario %s: %d interfaces served by one core; live after each round of topology Resets grows from "
                              "%d allocations / %d bytes (round 1) to %d / %d over %d rounds"
                              % (scn.sid, nif, first[0], first[1], worst[0], worst[1], len(per_round)), replay=sobj.text())
            else:
                rep.nontrivial(("multi", scn.sid, len(per_round)))
        return
    if kind == "repeat":
        npre, k = sobj.meta["npre"], sobj.meta["k"]
        reps = leds[npre:npre + k]
        if sobj.meta.get("faulty"):
            # allocations fail now and then: live memory may go up and down with what could be allocated, but what is
            # seen in the second half of the repetitions must have been seen in the first half already, and after the
            # faults stop and a Reset arrives only the per-interface record is left
            if len(reps) >= 100:
                h = len(reps) // 2
                early, late = max(x[1] for x in reps[:h]), max(x[1] for x in reps[h:])
                rep.count("repeat_under_allocation_failures_checked")
                rep.count("repeat_faulty:" + sobj.meta["which"])
                if late > early:
                    rep.violation("C19:repeated-request-grows-memory-under-allocation-failures:%s" % sobj.meta["which"],
                                  "scenario %s: the same %s request repeated %d times while allocations fail intermittently: live "
                                  "bytes at most %d during the first half, up to %d in the second (live allocations %d -> %d)"
                                  % (scn.sid, sobj.meta["which"], k, early, late, max(x[0] for x in reps[:h]), max(x[0] for x in reps[h:])),
                                  replay=sobj.text())
                elif scn.clean and len(leds) > npre + k and leds[-1][0] > 1:
                    rep.violation("C19:allocations-survive-reset:after-allocation-failures",
                                  "scenario %s: %s x %d under intermittent allocation failures, then faults cleared and Reset: %d "
                                  "allocations / %d bytes live" % (scn.sid, sobj.meta["which"], k, leds[-1][0], leds[-1][1]), replay=sobj.text())
                else:
                    rep.nontrivial(("repeat-faulty", scn.sid))
            return
        if len(reps) >= 3:
            after2 = reps[1][1]
            worst = max(x[1] for x in reps[2:])
            rep.count("repeat_checked")
            rep.count("repeat:" + sobj.meta["which"])
            if worst > after2:
                rep.violation("C19:repeated-request-grows-memory:%s" % sobj.meta["which"],
                              "scenario %s: the same %s request repeated %d times: live bytes %d after the 2nd, up to %d later "
                              "(live allocations %d -> %d)" % (scn.sid, sobj.meta["which"], k, after2, worst, reps[1][0], reps[-1][0]),
                              replay=sobj.text())
            else:
                rep.nontrivial(("repeat", scn.sid))
        return
    # mixed: per-input delta rule
    cfg = sobj.meta["cfg"]
    frames = sobj.meta["frames"]
    rx = RxBuf(cfg["mtu"], cfg["rxseed"])
    start = dict((lab, pos) for pos, lab in scn.marks).get("start", 0)
    pre = scn.inputs[start - 1] if start > 0 else None
    prev = 1 if (pre is not None and sobj.meta.get("two") and start > 0) else 0     # the other interface's record, if it spoke first
    first_prev = prev
    maxlive = 0
    grown = set()               # request kinds that have already added a retained allocation in this session
    record_done = prev > 0 and False
    for idx, inp in enumerate(scn.inputs[start:]):
        if idx >= len(frames) or inp.led is None:
            break
        buf = rx.load(frames[idx])
        tos, op = buf[15], buf[17]
        live = inp.led[0]
        delta = live - prev
        is_probe = tos == 0 and op in (W.OP_PROBE, W.OP_TRAIN)
        kind = (op, buf[32] if op == W.OP_QLT else 0)
        # what a frame may legitimately leave behind: the constant per-interface record (once), one observation for a
        # Probe/Train, and one cache entry per kind of request per session (e.g. the icon) - a second growth on the
        # same kind within a session is a buffer that was not released
        budget = (0 if record_done else 1) + (1 if is_probe else (0 if kind in grown else 1))
        if delta > budget:
            rep.violation("C19:buffer-not-released-after-frame:%s" % W.OPNAMES.get(op, "other"),
                          "scenario %s input %d (tos=%d opcode=%d): live allocations %d -> %d; at most +%d can be retained state "
                          "(the per-interface record once, one observation per Probe/Train, one cache entry per kind of request "
                          "per session)" % (scn.sid, idx + 1, tos, op, prev, live, budget), replay=None)
        if delta > 0:
            d = delta
            if not record_done:
                record_done = True
                d -= 1
            if d > 0 and not is_probe:
                grown.add(kind)
        if tos == 0 and op == W.OP_RESET and delta <= 0:
            grown.clear()
        prev = live
        maxlive = max(maxlive, live)
    rep.count("mixed_frames", min(len(frames), len(scn.inputs)))
    rep.nontrivial(("mixed", scn.sid, maxlive))
    if len(rep.samples) < 2:
        rep.sample(dict(scenario=scn.sid, frames=len(frames), max_live_allocations=maxlive, high_water_bytes=max(l[3] for l in leds),
                        after_final_reset=dict(live=final[0], bytes=final[1])))


def stash(rep):
    st = getattr(rep, "_c19", None)
    if st is None:
        st = rep._c19 = {}
        rep.extra["_c19"] = st
    return st


def run(ctx):
    rep = ctx.report
    rep.rule = ("allocation ledger of the verification port after every frame: (1) mixed histories of 2*10^4 (quick) / 10^5 frames "
                "ending in a topology Reset must return to the baseline measured on an interface whose only frame was a Reset, and "
                "no frame may retain more than its one observation / icon cache entry; (2) the same request repeated K=1000 times "
                "must not grow live bytes after the 2nd repetition; (3) a flood of Probes with pairwise distinct sources and no Query "
                "must not grow live bytes beyond their value at 16384 observations; (4) LeakSanitizer at process exit; "
                "non-trivial = histories/floods/repeat runs judged to the end")
    rep.assumptions = ["any cap of up to 16384 retained observations is accepted; continued growth is the violation",
                       "only parseFrame is driven here: daemon-owned automata objects are not the responder's retained state"]
    binary = H.build(ctx.work, "asan")
    scns = [make_baseline()] + make_repeat(ctx, ctx.n(39, 390), 1000) + make_repeat(ctx, ctx.n(39, 390), 1000, faulty=True)
    scns += make_mixed(ctx, ctx.n(40, 192), ctx.n(20000, 100000))
    scns += make_churn(ctx, ctx.n(16, 200))
    scns.append(make_flood(ctx, ctx.n(40000, 100000)))
    scns.append(make_cyclic_flood(ctx, ctx.n(40000, 100000)))
    scns += [make_multi_iface(ctx, ctx.n(200, 2000), i) for i in range(ctx.n(6, 32))]
    # every shard's partial report carries its own stash; merge them by hand afterwards
    merged = {}
    orig_merge = rep.merge

    def merge_with_stash(other):
        st = other.extra.pop("_c19", None)
        if st:
            if "baseline" in st:
                merged["baseline"] = st["baseline"]
            merged.setdefault("after_reset", []).extend(st.get("after_reset", []))
        orig_merge(other)
    rep.merge = merge_with_stash
    run_monitored(ctx, binary, scns, monitor, tag="mem", cpu_limit=600, env_extra={"ASAN_OPTIONS": "detect_leaks=1"})
    rep.merge = orig_merge
    rep.extra.pop("_c19", None)
    base = merged.get("baseline")
    if base is None:
        rep.inconclusive.append("baseline scenario produced no ledger")
    else:
        for sid, cnt, byt in merged.get("after_reset", []):
            rep.count("after_reset_checked")
            if (cnt, byt) != tuple(base):
                rep.violation("C19:allocations-survive-reset", "scenario %s: after the final topology Reset %d allocations / %d bytes are live; "
                              "an interface that only ever saw a Reset holds %d / %d" % (sid, cnt, byt, base[0], base[1]))
    c = rep.counters
    rep.need("after_reset_checked", c.get("after_reset_checked", 0), ctx.n(30, 200))
    rep.need("two_interface_histories", c.get("two_interface_histories", 0), ctx.n(15, 80))
    rep.need("repeat_checked", c.get("repeat_checked", 0), ctx.n(39, 390))
    rep.need("repeat_under_allocation_failures_checked", c.get("repeat_under_allocation_failures_checked", 0), ctx.n(39, 390))
    rep.need("plateau_checked or violation", c.get("plateau_checked", 0) + sum(1 for k in rep.viol if k.startswith("C19:retained")), 2)
    rep.need("churn_rounds", c.get("churn_rounds", 0), ctx.n(50, 1000))
    rep.need("multi_iface_rounds", c.get("multi_iface_rounds", 0), ctx.n(1000, 50000))
    rep.need("mixed_frames", c.get("mixed_frames", 0), ctx.n(700000, 17 * 10 ** 6))
    rep.need("clock_gaps_between_frames", rep.counters.get("clock_gaps_between_frames", 0), 200)
