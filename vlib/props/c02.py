"""C02 - only well-formed, solicited, bounded frames ever leave the responder."""
import struct

from .. import gen as G
from .. import harness as H
from .. import wire as W
from .. import model as M
from ..runner import run_monitored


def history(rng, net, mtu, n):
    style = rng.choice(["session", "session", "mutated", "noise", "tos-opcode", "capacity"])
    if rng.random() < 0.03:
        style = "overflow"
    if style == "overflow":
        # more distinct observations than the responder is willing to remember, then Queries until nothing is left (and a
        # few more): every QueryResp on the way must still be consistent in itself
        m = rng.randrange(len(net.mappers))
        h = [G.f_discover(rng, net, m=m, tos=0)]
        k = rng.choice([1023, 1024, 1025, 1030, 1100, 1300])
        real = rng.choice(net.strangers)
        for j in range(k):
            h.append(W.probe(net.own, bytes([2, 0x7e]) + j.to_bytes(4, "big"), net.own, real, train=(j % 3 == 0)))
            if j in (400, 1024) and rng.random() < 0.3:
                h.append(G.f_query(rng, net, m))
        cap = max(1, G.cap_qresp(mtu))
        for _ in range((1024 + cap - 1) // cap + 4):
            h.append(G.f_query(rng, net, m))
        return style, h
    if style == "capacity":
        # responses filled to the brim: QueryResp at and over capacity, maximum-size Emit, large-TLV chunks
        m = rng.randrange(len(net.mappers))
        h = [G.f_discover(rng, net, m=m, tos=0)]
        cap = G.cap_qresp(mtu)
        k = min(460, rng.choice([cap - 1, cap, cap + 1, 2 * cap + 1]))
        srcs = G.distinct_macs(rng, max(k, 1), avoid=[net.own])
        for j in range(k):
            h.append(W.probe(net.own, srcs[j], net.own, rng.choice(net.strangers), train=rng.random() < 0.5))
        for _ in range(4):
            h.append(G.f_query(rng, net, m))
        ce = G.cap_emit(mtu)
        h.append(G.f_emit(rng, net, m, n=rng.choice([ce, ce - 1]))[0])
        for typ in (0x0E, 0x11, 0x13):
            h.append(G.f_qlt(rng, net, m, typ=typ, off=rng.choice([0, 1, mtu - 34, mtu - 35])))
        return style, h
    if style == "session":
        return style, G.session_history(rng, net, mtu, n, p_mut=0.05, p_noise=0.02)
    if style == "mutated":
        return style, G.session_history(rng, net, mtu, n, p_mut=0.5, p_noise=0.1)
    if style == "noise":
        h = [G.f_discover(rng, net)] if rng.random() < 0.5 else []
        return style, h + [G.f_noise(rng, mtu) for _ in range(n)]
    h = []
    for _ in range(n):
        tos = rng.choice([0, 1, 2, 3, rng.randint(0, 255)])
        op = rng.randint(0, 0x0E) if rng.random() < 0.8 else rng.randint(0, 255)
        h.append(G.f_misc(rng, net, opcode=op, tos=tos)[:mtu])
        if rng.random() < 0.2:
            h.append(G.f_discover(rng, net))
    return style, h


def make_scenarios(ctx, count):
    a, b = [], []
    for i in range(count):
        rng = G.rng_for(ctx.seed, "C02", i)
        cfg = G.rand_cfg(rng)
        if i % 29 == 11:
            cfg["mtu"] = rng.choice(G.MTUS_TINY)      # very small MTU: whatever is sent must still fit, or nothing is sent
        glob = G.rand_global(rng)
        if rng.random() < 0.3:
            # some platform getters fail (the set of failing getters is configuration, the output must still be a
            # function of frames + configuration); MAC and MTU stay available so that the other clauses keep their meaning
            for bit in range(2, 12):
                if rng.random() < 0.3:
                    cfg["fail"] |= 1 << bit
            for bit in (12, 13, 14, 15):
                if rng.random() < 0.2:
                    glob["fail"] |= 1 << bit
        net = G.Net(rng, cfg["mac"])
        style, frames = history(rng, net, cfg["mtu"], rng.randint(20, 60))
        use_flow = rng.random() < 0.25
        failrc = rng.choice([-1, -1, 1, 3, 255, -9])       # what a failing getter returns: any non-zero value
        mtu_change = None
        if rng.random() < 0.12 and len(frames) > 4 and style != "overflow":
            # the link's MTU changes while the interface lives on: every frame sent afterwards must fit the new one
            mtu_change = (rng.randrange(1, len(frames)), rng.choice([576, 1500, 9000, rng.choice(G.MTUS_TINY), G.pick_mtu(rng)]))
        shadow = None
        if i % 4 == 3 and style != "overflow":
            # a second interface of the same host with its own session (icon transfers, Resets) in between
            cfg1, fr1 = G.shadow_iface(rng, cfg, max(6, len(frames) // 2))
            net1 = G.Net(rng, cfg1["mac"])
            for _ in range(rng.randint(1, 3)):
                pos = rng.randrange(len(fr1) + 1)
                fr1[pos:pos] = [G.f_discover(rng, net1, m=0, tos=0), G.f_qlt(rng, net1, 0, typ=0x0E, off=0), G.f_reset(rng, net1, m=0, tos=0)]
            shadow = (cfg1, fr1)
        for tag, fill, lst in (("a", "165", a), ("b", "256 %d" % rng.randint(1, 10 ** 6), b)):
            s = H.Scenario("%s%d" % (tag, i), meta=dict(frames=frames, cfg=cfg, style=style, pair=i, flow=use_flow, mtu_change=mtu_change))
            s.add("FILL " + fill)
            s.add("OPT failrc=%d" % failrc)
            if i % 5 == 2:
                s.add("OPT sloppy=1 failstyle=1")
            s.iface(0, **H.iface_kw(cfg)).glob(**G.global_kw(glob))
            grng = G.rng_for(ctx.seed, "C02gap", i) if i % 2 else None       # the same clock in both runs of the pair
            if grng is not None and grng.random() < 0.5:
                s.add("NOW %d" % grng.choice(s.BASES_MS))
            srng = G.rng_for(ctx.seed, "C02shadow", i)
            sh = list(shadow[1]) if shadow else []
            if shadow:
                s.iface(1, **H.iface_kw(shadow[0]))
                s.meta["shadow_iface"] = 1
            for k, fr in enumerate(frames):
                while sh and srng.random() < 0.4:
                    s.frame(1, sh.pop(0))
                if mtu_change is not None and k == mtu_change[0]:
                    s.add("MTU 0 %d %d" % (mtu_change[1], cfg["rxseed"]))
                if grng is not None and grng.random() < 0.2:
                    s.add("ADV %d" % grng.choice(s.GAPS_MS))
                    s.meta["clock_gaps"] = s.meta.get("clock_gaps", 0) + 1
                s.frame(0, fr, op="W" if use_flow else "F")
            lst.append(s)
    return a + b


def monitor(scn, sobj, rep, sf, ck):
    meta = sobj.meta
    cfg, frames = meta["cfg"], meta["frames"]
    mtu, own = cfg["mtu"], cfg["mac"]
    rx = M.RxBuf(mtu, cfg["rxseed"])
    trace = []
    nsent = 0
    for idx, inp in enumerate(scn.inputs):
        if idx >= len(frames):
            break
        if meta.get("mtu_change") is not None and idx == meta["mtu_change"][0]:
            mtu = meta["mtu_change"][1]
            rx = M.RxBuf(mtu, cfg["rxseed"])
            rep.count("mtu_changed_mid_history")
        buf = rx.load(frames[idx])
        tos, op = buf[15], buf[17]
        sends = inp.sends()
        total = inp.out[0] if inp.out else len(sends)
        trace.append(tuple((e[0], e[3]) if e[0] == "T" else (e[0], e[1]) for e in inp.ev if e[0] in ("T", "Z")))

        def bad(key, msg, raw=None):
            rep.violation("C02:" + key, "scenario %s input %d (rx tos=%d opcode=%d, %d bytes received, mtu %d): %s%s"
                          % (scn.sid, idx + 1, tos, op, len(frames[idx]), mtu, msg,
                             " frame=" + raw.hex()[:200] if raw else ""), replay=sobj.text())
        solicited = tos in M.DISCOVERY_TOS and op in M.REQUEST_OPS
        if total and not solicited:
            bad("unsolicited-transmission", "%d frame(s) sent in reaction to a frame that is not Discover/Emit/Query/QueryLargeTlv "
                "of a discovery service" % total, sends[0][3] if sends else None)
        if solicited and total:
            rep.count("solicited:%s" % W.OPNAMES[op])
            if op == W.OP_EMIT:
                declared = struct.unpack(">H", bytes(buf[32:34]))[0]
                if total > declared + 1:
                    bad("more-frames-than-descriptors-plus-ack", "%d frames for an Emit declaring %d descriptors" % (total, declared))
            elif total > 1:
                bad("more-than-one-reply", "%d frames for one %s" % (total, W.OPNAMES[op]))
        for e in sends:
            raw = e[3]
            nsent += 1
            if raw is None:
                continue
            if len(raw) < 32:
                bad("frame-shorter-than-base-header", "%d bytes" % len(raw), raw)
                continue
            f = W.decode(raw)
            for b in M.check_common(f, own, mtu):
                bad("malformed:" + b.split(":")[0], b, raw)
            for b in M.check_structure(f, mtu):
                bad("malformed:" + b.split(":")[0] + (":" + b.split(":")[1] if ":" in b and b.startswith("hello") else ""), b, raw)
            rep.count("sent:%s" % W.OPNAMES.get(f.opcode, "other"))
            rep.nontrivial(raw[:60] + bytes([len(raw) & 255]))
        if inp.out is None:
            break
    rep.evaluations += nsent
    rep.count("frames_sent_checked", nsent)
    rep.count("style:" + meta["style"])
    # determinism: same scenario under a different allocation fill pattern
    stash = getattr(rep, "_stash", None)
    if stash is None:
        stash = rep._stash = {}
    other = stash.pop(meta["pair"], None)
    if other is None:
        stash[meta["pair"]] = (scn.sid, trace, scn.clean)
    else:
        rep.count("determinism_pairs")
        osid, otrace, oclean = other
        if oclean and scn.clean and otrace != trace:
            j = next((k for k in range(min(len(trace), len(otrace))) if trace[k] != otrace[k]), -1)
            fr = frames[j] if 0 <= j < len(frames) else b""
            opn = W.OPNAMES.get(fr[17], "other") if len(fr) >= 18 else "short"
            rep.violation("C02:output-depends-on-uninitialised-memory:%s" % opn,
                          "scenarios %s / %s differ only in the byte pattern of freshly allocated memory, traces differ at "
                          "input %d (%s):\n  %s\n  %s" % (osid, scn.sid, j + 1, opn,
                                                           [x[1].hex()[:160] if isinstance(x[1], bytes) else x for x in otrace[j]][:3],
                                                           [x[1].hex()[:160] if isinstance(x[1], bytes) else x for x in trace[j]][:3]),
                          replay=sobj.text())
    if nsent and len(rep.samples) < 2:
        rep.sample(dict(scenario=scn.sid, style=meta["style"], mtu=mtu, frames_in=len(frames), frames_out=nsent))


def msan_monitor(scn, sobj, rep, sf, ck):
    """C02's clause is about bytes that leave the responder: only reports raised by the initialisedness check
    inside lltd_port_send_frame are judged here (other uninitialised-value uses are C01's business)."""
    rep.count("msan_scenarios")
    rep.count("msan_frames_checked", sum(i.out[0] for i in scn.inputs if i.out))
    if "lltd_port_send_frame" in scn.stderr and "MemorySanitizer" in scn.stderr:
        blk = scn.stderr[scn.stderr.index("MemorySanitizer") - 20:][:2500]
        m = None
        for key, txt in sf:
            if key.startswith("msan:"):
                m = key
        rep.violation("C02:uninitialised-bytes-transmitted:%s" % (m.split(":")[-1] if m else "?"),
                      "scenario %s under MemorySanitizer: a frame handed to lltd_port_send_frame contains uninitialised bytes\n%s"
                      % (scn.sid, blk), replay=sobj.text())


def run(ctx):
    rep = ctx.report
    rep.rule = ("histories of valid sessions, mutated frames, noise and (ToS, opcode) sweeps over MTU and attribute variety, "
                "through parseFrame and the daemon flow; every frame accepted by the port is decoded by an independent "
                "byte-level decoder and checked against the per-opcode grammar and the solicitation rule; each scenario runs "
                "twice with different fill patterns of freshly allocated memory and the traces must be equal; "
                "distinct_nontrivial = distinct transmitted frames (by first 60 bytes and length)")
    rep.assumptions = ["'solicited' is classified from the ToS and opcode bytes of the receive buffer only",
                       "the receive-buffer tail is port-owned defined memory, identical in both runs"]
    binary, msan, plain = H.build_many(ctx.work, [dict(flavour="asan"), dict(flavour="msan"), dict(flavour="plain")])
    scns = make_scenarios(ctx, ctx.n(2000, 40000))
    # pairs (a_i, b_i) land in the same shard: count is a multiple of the shard count
    run_monitored(ctx, binary, scns, monitor, tag="wf", nshards=16)
    # the determinism pairs once more without red zones (a read the sanitizer would have stopped now reaches the wire)
    n4 = (len(scns) // 2) // 4 // 16 * 16
    sub = scns[:n4] + scns[len(scns) // 2:len(scns) // 2 + n4]
    run_monitored(ctx, plain, sub, monitor, tag="wf-plain", nshards=16, env_extra={"VH_PAD": "256"})
    # MemorySanitizer: __msan_check_mem_is_initialized on every transmitted frame, allocations left poisoned
    half = scns[:len(scns) // 2]
    run_monitored(ctx, msan, half if not ctx.quick else half[:480], msan_monitor, tag="msan", nshards=16)
    rep.need("msan_scenarios", rep.counters.get("msan_scenarios", 0), ctx.n(400, 1000))
    c = rep.counters
    rep.need("frames_sent_checked", c.get("frames_sent_checked", 0), 10000)
    rep.need("determinism_pairs", c.get("determinism_pairs", 0), ctx.n(2300, 48000))
    for op in ("Hello", "Probe", "Train", "ACK", "QueryResp", "QueryLargeTlvResp"):
        rep.need("sent:" + op, c.get("sent:" + op, 0), 100)
    rep.need("style:overflow (more observations than the responder keeps)", c.get("style:overflow", 0), 10)
    rep.need("inputs_of_a_second_interface_in_between", rep.counters.get("inputs_of_a_second_interface_in_between", 0), 2000)
    rep.need("mtu_changed_mid_history", c.get("mtu_changed_mid_history", 0), 50)
    rep.need("clock_gaps_between_frames", rep.counters.get("clock_gaps_between_frames", 0), 200)
