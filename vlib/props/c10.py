"""C10 - probes emitted by one responder are observed by a peer responder."""
from .. import gen as G
from .. import harness as H
from .. import wire as W
from ..runner import run_monitored


def make_scenarios(ctx, count):
    scns = []
    for i in range(count):
        rng = G.rng_for(ctx.seed, "C10", i)
        cfa = G.rand_cfg(rng, mtu=rng.choice([576, 1500, 9216, rng.randint(576, 9216), rng.choice(G.MTUS_HUGE)]))
        cfb = G.rand_cfg(rng, mtu=rng.choice([576, 1500, 9216, rng.randint(576, 9216), rng.choice(G.MTUS_HUGE)]))
        a, b = cfa["mac"], cfb["mac"]
        if a == b:
            continue
        neta = G.Net(rng, a)
        netb = G.Net(rng, b)
        netb.mappers, netb.bridges = neta.mappers, neta.bridges      # the same mapper talks to both
        m = rng.randrange(len(neta.mappers))
        bridged = rng.random() < 0.3
        b_is_bridge = rng.random() < 0.25       # the mapper reaches A through B: A sees the mapper's frames with Ethernet source B
        if b_is_bridge:
            neta.bridges = list(neta.bridges)
            neta.bridges[m] = b
            netb.bridges = list(netb.bridges)
        s = H.Scenario("p%d" % i)
        s.iface(0, **H.iface_kw(cfa)).iface(1, **H.iface_kw(cfb)).glob(**G.global_kw(G.rand_global(rng, icon_size=10)))
        s.add("OPT sleep=0")
        ops = []
        # a third (and fourth) interface of the same host with traffic of its own, busier than A and B at times: a bystander
        bystanders = []
        if i % 3 == 2:
            for k in range(rng.choice([1, 2])):
                cfx = G.rand_cfg(rng, mtu=1500)
                if cfx["mac"] in (a, b):
                    continue
                s.iface(2 + k, **H.iface_kw(cfx))
                bystanders.append((2 + k, cfx, G.Net(rng, cfx["mac"])))
            s.meta["bystanders"] = len(bystanders)

        def bystander_traffic(n):
            for _ in range(n):
                if not bystanders:
                    return
                k, cfx, netx = rng.choice(bystanders)
                r = rng.random()
                fr = G.f_discover(rng, netx, m=0, tos=0) if r < 0.2 else G.f_probe(rng, netx, to_me=True) if r < 0.8 else G.f_query(rng, netx, 0)
                s.frame(k, fr)
                ops.append(("F", k, fr))

        def feed(ifc, fr, tag):
            if bystanders and rng.random() < 0.3:
                bystander_traffic(rng.choice([1, 1, 2, 6]))
            if i % 2 and rng.random() < 0.2:      # the clock moves on by an arbitrary amount between frames
                s.add("ADV %d" % rng.choice(s.GAPS_MS))
                s.meta["clock_gaps"] = s.meta.get("clock_gaps", 0) + 1
            s.frame(ifc, fr)
            ops.append((tag, ifc, fr))
        gen = rng.choice([1, 7, 0x1234, 0, 0])        # generation 0: a mapper that has not numbered its run yet
        feed(0, G.f_discover(rng, neta, m=m, tos=0, bridged=bridged or b_is_bridge, gen=gen), "F")
        feed(1, G.f_discover(rng, netb, m=m, tos=0, bridged=bridged and not b_is_bridge, gen=gen), "F")
        seq = rng.randint(1, 50000)
        capb = G.cap_qresp(cfb["mtu"])
        for rnd in range(rng.randint(1, 3)):
            if rnd > 0 and rng.random() < 0.25:
                # A's hardware address is changed by its administrator in the middle of the session (the platform getter
                # reports the new one from now on): what A emits carries the address A has when it emits
                a = G.related_mac(rng, a) if rng.random() < 0.5 else G.rand_mac(rng)
                if a == b:
                    a = G.rand_mac(rng)
                s.add("SET 0 mac=%s" % a.hex())
                neta.own = a
                ops.append(("MAC-A", a))
            n = min(rng.choice([1, 2, 5, 12, 40]), G.cap_emit(cfa["mtu"]))
            srcs = G.distinct_macs(rng, n, avoid=[a, b])
            for j in range(1, n):
                if rng.random() < 0.3:        # spoofed sources that are nearly equal: distinct stations all the same
                    cand = G.related_mac(rng, srcs[j - 1], fold=rng.random() < 0.5)
                    if cand not in srcs and cand not in (a, b):
                        srcs[j] = cand
            descs = []
            for j in range(n):
                dst = b if rng.random() < 0.85 else rng.choice(neta.strangers)
                if descs and rng.random() < 0.25:
                    # a sibling of the previous descriptor: the same spoofed source towards another station (a mapper probes several
                    # switch ports with one source), or the same pair with the other kind
                    pk, pp, ps, pd = descs[-1]
                    sib = rng.choice(["other-destination", "other-destination", "other-kind"])
                    if sib == "other-destination":
                        descs.append((rng.randint(0, 1), rng.choice([0, 0, 1]), ps, b if pd != b else rng.choice(neta.strangers)))
                    else:
                        descs.append((1 - pk, rng.choice([0, 0, 1]), ps, pd))
                    s.meta["sibling_descriptors"] = s.meta.get("sibling_descriptors", 0) + 1
                    continue
                descs.append((rng.randint(0, 1), rng.choice([0, 0, 1, 3, 255]), srcs[j] if rng.random() < 0.9 else srcs[0], dst))
            # unrelated traffic on both
            for _ in range(rng.randint(0, 3)):
                feed(1, G.f_probe(rng, netb, to_me=rng.random() < 0.7), "F")
            for _ in range(rng.randint(0, 2)):
                feed(0, G.f_hello(rng, neta), "F")
            if rng.random() < 0.35:
                # quick-discovery traffic of the same mapper (or another enumerator) in the middle of the topology session
                qsrc = rng.choice([m, (m + 1) % len(neta.mappers)])
                tgt = rng.choice([0, 1, 1])
                net_t = neta if tgt == 0 else netb
                if rng.random() < 0.5:
                    feed(tgt, G.f_discover(rng, net_t, m=qsrc, tos=1), "F")
                feed(tgt, G.f_reset(rng, net_t, m=qsrc, tos=1), "F")
            if rng.random() < 0.5:
                third = rng.choice(netb.strangers)
                for (_k, _p, s_i, d_i) in rng.sample(descs, min(len(descs), rng.randint(1, 3))):
                    feed(1, W.probe(b, s_i, b, third, train=rng.random() < 0.5), "F")
            busy = i % 5 == 4 and capb <= 80
            if busy:
                # B is busy: it already holds more observations than one QueryResp carries when A's frames arrive, the mapper
                # fetches one (truncated) QueryResp, has A emit the very same frames again, and only then fetches the rest
                third = rng.choice(netb.strangers)
                for fsrc in G.distinct_macs(rng, rng.choice([capb, 2 * capb + 3, 3 * capb]), avoid=[a, b] + srcs):
                    feed(1, W.probe(b, fsrc, b, third, train=rng.random() < 0.3), "F")
                seq += 1
                feed(0, W.emit(a, neta.mappers[m], seq, descs, eth_src=neta.bridges[m] if (bridged or b_is_bridge) else None), "EMIT")
                s.add("DELIVER 0 1")
                ops.append(("DELIVER", descs))
                seq += 1
                feed(1, G.f_query(rng, netb, m, seq=seq, bridged=bridged and not b_is_bridge), "QUERY")
                ops.append(("HALF",))
            seq += 1
            feed(0, W.emit(a, neta.mappers[m], seq, descs, eth_src=neta.bridges[m] if (bridged or b_is_bridge) else None), "EMIT")
            s.add("DELIVER 0 1")
            ops.append(("DELIVER", descs))
            bystander_traffic(rng.choice([0, 1, 3, 8]) if bystanders else 0)     # between B recording the frames and the mapper asking for them
            if rng.random() < 0.25:
                # an enumerator's quick discovery passes by (and ends) while B holds the observations: none of B's business
                qsrc = rng.choice([m, (m + 1) % len(netb.mappers)])
                if rng.random() < 0.5:
                    feed(1, G.f_discover(rng, netb, m=qsrc, tos=1), "F")
                feed(1, G.f_reset(rng, netb, m=qsrc, tos=1), "F")
                s.meta["quick_reset_while_holding"] = s.meta.get("quick_reset_while_holding", 0) + 1
            for _ in range(rng.randint(0, 2)):
                # the mapper repeats its Discover before querying, sometimes already under a new generation number
                feed(1, G.f_discover(rng, netb, m=m, tos=0, bridged=bridged and not b_is_bridge,
                                     gen=gen if rng.random() < 0.5 else rng.choice([0, gen + 1, rng.randint(0, 65535)])), "F")
            nq = (n + 8 + (3 * capb if busy else 0)) // max(1, capb) + 2
            for _ in range(nq):
                seq += 1
                feed(1, G.f_query(rng, netb, m, seq=seq, bridged=bridged and not b_is_bridge), "QUERY")
            ops.append(("ROUND-END",))
        kmax = min(capb, G.cap_emit(cfa["mtu"]), 6)
        if i % 3 == 1 and 1 <= capb <= 80 and kmax >= 1:
            # a second session of the same mapper: B's last QueryResp of the first session left K observations behind, the
            # mapper resets both stations, discovers them again, has A emit exactly K frames towards B and asks B once - under
            # the sequence number of its last Query before the Reset (mappers number every session from the start again).
            # That one QueryResp is B's next one and has room for all K.
            K = rng.randint(1, kmax)
            third = rng.choice(netb.strangers)
            for fsrc in G.distinct_macs(rng, capb + K, avoid=[a, b]):
                feed(1, W.probe(b, fsrc, b, third, train=rng.random() < 0.3), "F")
            seq += 1
            feed(1, G.f_query(rng, netb, m, seq=seq, bridged=bridged and not b_is_bridge), "QUERY")
            ops.append(("ROUND-END",))
            feed(0, G.f_reset(rng, neta, m=m, tos=0), "F")
            feed(1, G.f_reset(rng, netb, m=m, tos=0), "F")
            feed(0, G.f_discover(rng, neta, m=m, tos=0, bridged=bridged or b_is_bridge, gen=gen), "F")
            feed(1, G.f_discover(rng, netb, m=m, tos=0, bridged=bridged and not b_is_bridge, gen=gen), "F")
            descs = [(rng.randint(0, 1), 0, x, b) for x in G.distinct_macs(rng, K, avoid=[a, b])]
            feed(0, W.emit(a, neta.mappers[m], rng.randint(1, 50000), descs, eth_src=neta.bridges[m] if (bridged or b_is_bridge) else None), "EMIT")
            s.add("DELIVER 0 1")
            ops.append(("DELIVER", descs))
            feed(1, G.f_query(rng, netb, m, seq=seq, bridged=bridged and not b_is_bridge), "QUERY")
            ops.append(("ROUND-END",))
            s.meta["second_session_rounds"] = 1
        s.meta.update(ops=ops, a=cfa["mac"], b=b, b_is_bridge=b_is_bridge)
        scns.append(s)
    return scns


def monitor(scn, sobj, rep, sf, ck):
    ops = sobj.meta["ops"]
    a, b = sobj.meta["a"], sobj.meta["b"]
    it = iter(scn.inputs)
    pend = None
    expect_prev, listed_prev = {}, set()
    emit_sends = 0
    expect = {}       # (eth src) -> raw frame delivered, for this round
    listed = set()
    delivered_total = 0
    rounds = 0
    nxt = next(it, None)
    dead = False
    for op in ops:
        if dead:
            break
        if op[0] == "MAC-A":
            a = op[1]
            rep.count("emitter_address_changed_mid_session")
            continue
        if op[0] in ("F", "EMIT", "QUERY"):
            inp = nxt
            nxt = next(it, None)
            if inp is None or inp.out is None:
                dead = True
                break
            if op[0] == "EMIT":
                emit_sends = inp.out[0] if inp.out else 0
            if op[0] == "QUERY":
                for e in inp.sends():
                    raw = e[3]
                    if raw and len(raw) >= 34 and raw[17] == W.OP_QUERYRESP:
                        _m, _e, n, descs = W.queryresp_fields(raw)
                        for (kind, rsrc, esrc, edst) in descs:
                            listed.add((rsrc, esrc, edst))
        elif op[0] == "DELIVER":
            got_here = set()
            # consume the D inputs produced by the delivery
            while nxt is not None and nxt.op == "D":
                inp = nxt
                nxt = next(it, None)
                for e in inp.ev:
                    if e[0] == "d":
                        raw = e[3]
                        if len(raw) >= 18 and raw[17] in (W.OP_PROBE, W.OP_TRAIN):
                            # only emitted Probe/Train frames are observations (A's ACK may travel via B when B is the bridge)
                            expect[raw[6:12]] = raw
                            got_here.add(bytes(raw[6:12]))
                            delivered_total += 1
                if inp.out is None:
                    dead = True
                    break
            # the mapper ordered A to emit towards B: when A carried the Emit out (one frame per descriptor and the ACK), each of
            # those frames reaches B - a frame that goes to somebody else is not recorded by B either
            descs_here = op[1]
            if not dead and emit_sends == len(descs_here) + 1:
                for (_k, _p, s_i, d_i) in descs_here:
                    if d_i == b and s_i not in got_here:
                        rep.violation("C10:emitted-frame-not-reported-by-peer:never-reached-the-peer",
                                      "scenario %s: A=%s carried out an Emit of %d descriptors; the one with source %s towards B=%s produced "
                                      "no frame with B as its Ethernet destination (descriptors: %s)"
                                      % (scn.sid, a.hex(), len(descs_here), s_i.hex(), b.hex(),
                                         ["%d:%s>%s" % (k_, x.hex(), y.hex()) for (k_, _q, x, y) in descs_here][:6]), replay=sobj.text())
                        break
        elif op[0] == "HALF":
            # one QueryResp has been fetched and more may be pending: what was delivered so far must show up in that response
            # or in a later one; what is delivered from now on must show up in a later one
            expect_prev, listed_prev = expect, listed
            expect, listed = {}, set()
            rep.count("frames_emitted_again_after_a_truncated_response", 1 if expect_prev else 0)
        elif op[0] == "ROUND-END":
            rounds += 1
            rep.evaluations += len(expect)
            only_first = {esrc for esrc in expect_prev if esrc not in expect}      # delivered before the first response only
            for esrc in only_first:
                expect[esrc] = expect_prev[esrc]
            listed_first = listed_prev | listed
            expect_prev, listed_prev = {}, set()
            for esrc, raw in expect.items():
                want = (a, esrc, b)
                if want not in (listed_first if esrc in only_first else listed):
                    f = W.decode(raw)
                    why = "real-destination-differs" if f.real_dst != b else "real-source-differs" if f.real_src != a else "not-reported"
                    rep.violation("C10:emitted-frame-not-reported-by-peer:%s" % why,
                                  "scenario %s: A=%s emitted %s (eth %s->%s, real %s->%s), delivered unmodified to B=%s; "
                                  "B's QueryResps listed %d observations, none with real source A, Ethernet source %s, destination B"
                                  % (scn.sid, a.hex(), W.OPNAMES.get(raw[17]), f.eth_src.hex(), f.eth_dst.hex(), f.real_src.hex(),
                                     f.real_dst.hex(), b.hex(), len(listed), esrc.hex()), replay=sobj.text())
                else:
                    rep.nontrivial((scn.sid, rounds, esrc))
            expect = {}
            listed = set()
    rep.count("frames_delivered", delivered_total)
    if sobj.meta.get("b_is_bridge"):
        rep.count("frames_delivered_to_the_mappers_bridge", delivered_total)
    rep.count("rounds", rounds)
    rep.count("sibling_descriptors", sobj.meta.get("sibling_descriptors", 0))
    rep.count("second_session_rounds_after_a_partial_drain", sobj.meta.get("second_session_rounds", 0))
    rep.count("quick_discovery_ended_while_observations_were_held", sobj.meta.get("quick_reset_while_holding", 0))
    if sobj.meta.get("bystanders") and delivered_total:
        rep.count("rounds_beside_other_busy_interfaces", rounds)
    if delivered_total and len(rep.samples) < 2:
        rep.sample(dict(scenario=scn.sid, A=a.hex(), B=b.hex(), delivered=delivered_total, rounds=rounds))


def run(ctx):
    rep = ctx.report
    rep.rule = ("two interface contexts A and B in one process, the same mapper accepted by both; Emit descriptor lists "
                "(Probe and Train, any pause) from A towards B with unrelated traffic on both; every frame A hands to the "
                "port with Ethernet destination B is copied unmodified into B's receive buffer; B's QueryResps (drained) must "
                "list (real source A, Ethernet source s_i, destination B); in a third of the scenarios a second session follows a partial drain "
                "(K observations left behind, Reset + Discover on both, A emits exactly K frames, one Query under the old session's last "
                "number: that QueryResp alone must list them); non-trivial = distinct delivered (round, source) found")
    rep.assumptions = ["B de-duplicates on (Ethernet source, real source), so inclusion is judged per distinct source"]
    binary = H.build(ctx.work, "asan")
    scns = make_scenarios(ctx, ctx.n(600, 15000))
    run_monitored(ctx, binary, scns, monitor, tag="peer")
    # the same histories on size-optimised builds of both compilers and with plain char unsigned: behaviour must not depend
    # on the optimisation level, the compiler or the ABI's choice for char
    os_gcc, os_clang, uchar = H.build_many(ctx.work, [dict(flavour="plain-os"), dict(flavour="plain-clang-os"), dict(flavour="asan-uchar")])
    third = max(1, len(scns) // 3)
    run_monitored(ctx, os_gcc, scns[:third], monitor, tag="peer-os")
    run_monitored(ctx, os_clang, scns[third:2 * third], monitor, tag="peer-clang-os")
    run_monitored(ctx, uchar, scns[2 * third:], monitor, tag="peer-uchar")
    rep.need("frames_delivered", rep.counters.get("frames_delivered", 0), 1000)
    rep.need("rounds_beside_other_busy_interfaces", rep.counters.get("rounds_beside_other_busy_interfaces", 0), 100)
    rep.need("quick_discovery_ended_while_observations_were_held", rep.counters.get("quick_discovery_ended_while_observations_were_held", 0), 100)
    rep.need("sibling_descriptors", rep.counters.get("sibling_descriptors", 0), 200)
    rep.need("frames_emitted_again_after_a_truncated_response", rep.counters.get("frames_emitted_again_after_a_truncated_response", 0), 20)
    rep.need("emitter_address_changed_mid_session", rep.counters.get("emitter_address_changed_mid_session", 0), 30)
    rep.need("frames_delivered_to_the_mappers_bridge", rep.counters.get("frames_delivered_to_the_mappers_bridge", 0), 100)
    rep.need("clock_gaps_between_frames", rep.counters.get("clock_gaps_between_frames", 0), 200)
