"""C18 - platform faults degrade service gracefully and never wedge the responder (fault enumeration)."""
import itertools

from .. import gen as G
from .. import harness as H
from .. import model as M
from .. import wire as W
from ..runner import run_monitored

OWN = bytes.fromhex("021122334455")
MAPPER = bytes.fromhex("02aa00000001")
BRIDGE = bytes.fromhex("02bb00000001")
S1 = bytes.fromhex("02cc00000001")
GETTER_BITS = list(range(0, 16))     # iface bits 0..11, global bits 12..15 (hostname, icon, friendly name, hw id)


def cfg_for(wifi, mtu=1500):
    c = dict(mtu=mtu, mac=OWN, flags=0x2000, iftype=6, ipv4=bytes([192, 168, 1, 7]), ipv6=bytes(range(16)), speed=1000000,
             wifi=1 if wifi else 0, conv=0, rxseed=11, fail=0)
    if wifi:
        c.update(mode=2, bssid=bytes.fromhex("0a0b0c0d0e0f"), ssid=b"verif-net", rate=108, rssi=-52, phy=4)
    return c


GLOB = dict(hostname=b"verif-host", url=b"http://x", uuid=bytes(range(16)), hwid=G.ucs2("HW-0001"), icon_seed=77, icon_size=3000,
            fname=G.ucs2("Friendly"), conv=0, fail=0)


# which Hello properties a failing getter may legitimately affect (bit numbers as in harness/vport.h)
GETTER_TLVS = {0: set(), 1: {W.TLV_HOSTID}, 2: {W.TLV_IFTYPE}, 3: {W.TLV_IPV4}, 4: {W.TLV_IPV6}, 5: {W.TLV_LINKSPEED}, 6: set(),
               7: {W.TLV_BSSID}, 8: {W.TLV_SSID}, 9: {W.TLV_MAXRATE}, 10: {W.TLV_RSSI}, 11: {W.TLV_IFTYPE}, 12: {W.TLV_HOSTNAME},
               13: {W.TLV_ICON}, 14: {W.TLV_FNAME}, 15: {W.TLV_HWID}}
CORE_TLVS = {W.TLV_HOSTID, W.TLV_CHAR, W.TLV_IFTYPE, W.TLV_IPV4, W.TLV_IPV6, W.TLV_PERF, W.TLV_LINKSPEED, W.TLV_HOSTNAME, W.TLV_QOS,
             W.TLV_ICON, W.TLV_FNAME}


def probes(n, base=1):
    return [W.probe(OWN, bytes([2, 0x50]) + (base + j).to_bytes(4, "big"), OWN, S1) for j in range(n)]


def corpus():
    disc = W.discover(MAPPER, 0x0101, 0x0202, [], tos=0)
    discq = W.discover(MAPPER, 0x0101, 0x0202, [], tos=1)
    emit3 = W.emit(OWN, MAPPER, 7, [(1, 0, S1, OWN), (0, 2, S1, MAPPER), (1, 1, OWN, S1)])
    P = 1500 - 34
    return [
        dict(name="discover-wired", wifi=0, mtu=1500, setup=[], request=[disc]),
        dict(name="discover-wifi", wifi=1, mtu=1500, setup=[], request=[disc]),
        dict(name="discover-quick", wifi=0, mtu=1500, setup=[], request=[discq]),
        dict(name="emit-3", wifi=0, mtu=1500, setup=[disc], request=[emit3]),
        dict(name="probes-query", wifi=0, mtu=1500, setup=[disc], request=probes(5) + [W.query(OWN, MAPPER, 9)]),
        dict(name="probes-overflow-query", wifi=0, mtu=576, setup=[disc], request=probes(30) + [W.query(OWN, MAPPER, 9), W.query(OWN, MAPPER, 10)]),
        dict(name="qlt-icon", wifi=0, mtu=1500, setup=[disc], request=[W.qlt(OWN, MAPPER, 3, 0x0E, 0), W.qlt(OWN, MAPPER, 4, 0x0E, P),
                                                                        W.qlt(OWN, MAPPER, 5, 0x0E, 2 * P)]),
        dict(name="qlt-friendly-name", wifi=0, mtu=1500, setup=[disc], request=[W.qlt(OWN, MAPPER, 3, 0x11, 0)]),
        dict(name="qlt-hardware-id", wifi=0, mtu=1500, setup=[disc], request=[W.qlt(OWN, MAPPER, 3, 0x13, 0)]),
        dict(name="reset", wifi=0, mtu=1500, setup=[disc] + probes(3) + [W.qlt(OWN, MAPPER, 3, 0x0E, 0)], request=[W.reset(MAPPER, tos=0)]),
        dict(name="first-frame-query", wifi=0, mtu=1500, setup=[], request=[W.query(OWN, MAPPER, 9), disc]),
        dict(name="daemon-flow", wifi=0, mtu=1500, setup=[], request=[disc, emit3], flow=True),
        # malformed requests while the platform misbehaves: declared counts the frame (or the receive buffer) cannot hold
        dict(name="emit-count-beyond-frame", wifi=0, mtu=1500, setup=[disc],
             request=[W.emit(OWN, MAPPER, 7, [(1, 0, S1, OWN), (0, 0, S1, MAPPER)], count=105),
                      W.emit(OWN, MAPPER, 8, [(1, 0, S1, OWN)], count=0xFFFF)]),
        dict(name="discover-count-beyond-frame", wifi=0, mtu=1500, setup=[],
             request=[W.discover(MAPPER, 0x0101, 0x0202, [S1], tos=0, count=0xFFFF)]),
        # a Train: the same (Ethernet source, real source) pair several times, then another pair, then the Query
        dict(name="train-repeat-query", wifi=0, mtu=1500, setup=[disc],
             request=probes(1) * 4 + probes(1, base=7) * 2 + [W.query(OWN, MAPPER, 9)]),
        # jumbo frames: more observations pending than a 1500-byte QueryResp carries
        dict(name="probes-100-query-jumbo", wifi=0, mtu=9000, setup=[disc] + probes(100), request=[W.query(OWN, MAPPER, 9), W.query(OWN, MAPPER, 10)]),
        # the MTU grows before the faulted request; more requests arrive after the fault has cleared and before any Reset - a
        # buffer kept from one request to the next must survive a failed re-allocation
        dict(name="query-after-mtu-grows", wifi=0, mtu=1500, request_mtu=9000, setup=[disc] + probes(3) + [W.query(OWN, MAPPER, 8)], pre_ops=["MTU 0 9000 11"],
             request=probes(2, base=20) + [W.query(OWN, MAPPER, 9)], post=[W.query(OWN, MAPPER, 10), W.qlt(OWN, MAPPER, 11, 0x0E, 0)]),
        dict(name="query-after-mtu-grows-and-shrinks", wifi=0, mtu=1500, request_mtu=9000, setup=[disc] + probes(3) + [W.query(OWN, MAPPER, 8)], pre_ops=["MTU 0 9000 11"],
             request=[W.query(OWN, MAPPER, 9)], post_ops=["MTU 0 1500 11"], post=probes(1, base=30) + [W.query(OWN, MAPPER, 10), W.qlt(OWN, MAPPER, 11, 0x0E, 0)]),
        dict(name="qlt-icon-mtu-grows-mid-transfer", wifi=0, mtu=576, request_mtu=1500, setup=[disc, W.qlt(OWN, MAPPER, 3, 0x0E, 0)], pre_ops=["MTU 0 1500 11"],
             request=[W.qlt(OWN, MAPPER, 4, 0x0E, 542)], post_ops=["MTU 0 576 11"], post=[W.qlt(OWN, MAPPER, 5, 0x0E, 542), W.qlt(OWN, MAPPER, 6, 0x0E, 0)]),
        # the icon has been delivered completely (3000 bytes: three responses at MTU 1500) and is asked for again, from the
        # start, in the middle and past its end, while the platform runs short of memory
        dict(name="qlt-icon-asked-again-after-delivery", wifi=0, mtu=1500,
             setup=[disc, W.qlt(OWN, MAPPER, 3, 0x0E, 0), W.qlt(OWN, MAPPER, 4, 0x0E, P), W.qlt(OWN, MAPPER, 5, 0x0E, 2 * P)],
             request=[W.qlt(OWN, MAPPER, 6, 0x0E, 100), W.qlt(OWN, MAPPER, 7, 0x0E, 0), W.qlt(OWN, MAPPER, 8, 0x0E, 2 * P), W.qlt(OWN, MAPPER, 9, 0x0E, 3000)],
             post=[W.qlt(OWN, MAPPER, 10, 0x0E, 0), W.qlt(OWN, MAPPER, 11, 0x0E, P)]),
        dict(name="qlt-icon-asked-again-a-minute-later", wifi=0, mtu=1500,
             setup=[disc, W.qlt(OWN, MAPPER, 3, 0x0E, 0), W.qlt(OWN, MAPPER, 4, 0x0E, P), W.qlt(OWN, MAPPER, 5, 0x0E, 2 * P)], pre_ops=["ADV 61000"],
             request=[W.qlt(OWN, MAPPER, 6, 0x0E, 100), W.qlt(OWN, MAPPER, 7, 0x0E, 0), W.qlt(OWN, MAPPER, 8, 0x0E, 2 * P)],
             post=[W.qlt(OWN, MAPPER, 10, 0x0E, 0)]),
        # the mapper's Query hits the fault and gets no answer; the mapper asks again under the same number, then goes on
        dict(name="query-retried-after-a-failed-one", wifi=0, mtu=1500, setup=[disc] + probes(3) + [W.query(OWN, MAPPER, 8)],
             request=probes(2, base=20) + [W.query(OWN, MAPPER, 9)], post=[W.query(OWN, MAPPER, 9), W.query(OWN, MAPPER, 10)]),
        dict(name="qlt-retried-after-a-failed-one", wifi=0, mtu=1500, setup=[disc, W.qlt(OWN, MAPPER, 3, 0x0E, 0)],
             request=[W.qlt(OWN, MAPPER, 4, 0x0E, P)], post=[W.qlt(OWN, MAPPER, 4, 0x0E, P), W.qlt(OWN, MAPPER, 5, 0x0E, 2 * P)]),
        dict(name="qlt-offset-past-end", wifi=0, mtu=1500, setup=[disc],
             request=[W.qlt(OWN, MAPPER, 3, 0x0E, 0x7FFF), W.qlt(OWN, MAPPER, 4, 0x11, 0x7FFF), W.qlt(OWN, MAPPER, 5, 0x13, 65)]),
    ]


CONT = [W.discover(MAPPER, 5, 6, [], tos=0), W.probe(OWN, S1, OWN, S1), W.query(OWN, MAPPER, 21), W.qlt(OWN, MAPPER, 22, 0x0E, 0),
        W.qlt(OWN, MAPPER, 23, 0x11, 0), W.emit(OWN, MAPPER, 24, [(1, 0, S1, OWN)]), W.discover(BRIDGE, 0, 1, [], tos=1)]


def build_scn(sid, c, fault_lines, getter_fail=None, failrc=-1):
    cfg = cfg_for(c["wifi"], c["mtu"])
    s = H.Scenario(sid, meta=dict(base=c["name"], nreq=len(c["request"]), nsetup=len(c["setup"]), flow=bool(c.get("flow")),
                                  getter_fail=getter_fail, mtu=c.get("request_mtu", c["mtu"]), request_frames=list(c["request"]),
                                  post_frames=list(c.get("post", []))))
    kw = H.iface_kw(cfg)
    s.iface(0, **kw)
    s.iface(1, **kw)
    s.glob(**G.global_kw(GLOB))
    s.add("OPT sleep=1")
    if c.get("flow"):
        s.add("AI 0")
    for fr in c["setup"]:
        s.frame(0, fr)
    for ln in c.get("pre_ops", []):
        s.add(ln)
    s.add("MARK request")
    for ln in fault_lines:
        s.add(ln)
    if getter_fail is not None:
        # any non-zero return value is a failure (the core tests against 0); a failing getter may leave partial outputs
        # behind (os/darwin stores the size before its allocation fails) and text getters may fill their whole window
        s.add("OPT failrc=%d failstyle=%d sloppy=%d" % (failrc, 1 if (failrc > 0 or (getter_fail >> 3) % 2) else 0, 1 if (getter_fail >> 5) % 2 else 0))
        s.add("SET 0 fail=%d" % (getter_fail & 0xFFF))
        s.add("GSET fail=%d" % (getter_fail & 0xF000))
    for fr in c["request"]:
        s.frame(0, fr, op="W" if c.get("flow") else "F")
    s.add("CLEAR")
    if getter_fail is not None:
        s.add("SET 0 fail=0")
        s.add("GSET fail=0")
    for ln in c.get("post_ops", []):
        s.add(ln)
    for fr in c.get("post", []):
        s.frame(0, fr)            # the fault is over, no Reset yet: requests that had no fault of their own
    if c.get("pre_ops") or c.get("post_ops"):
        s.add("MTU 0 %d 11" % c["mtu"])       # back to the MTU the fresh comparison interface has
    s.add("MARK recover")
    s.frame(0, W.reset(MAPPER, tos=0))
    s.add("LEDGER")
    filler = (W.base(OWN, S1, 5, 0x44, OWN, S1, 9) + W.fill_stream(c["mtu"], 99))[:c["mtu"]]
    s.add("MARK contP")
    s.frame(0, filler)
    for fr in CONT:
        s.frame(0, fr)
    s.add("MARK contQ")
    s.frame(1, filler)
    for fr in CONT:
        s.frame(1, fr)
    return s


def proj(raw):
    return (raw[17], raw[0:6], raw[6:12], raw[18:24], raw[24:30], raw[30:32]) if raw and len(raw) >= 32 else None


def is_subseq(a, b):
    it = iter(b)
    return all(any(x == y for y in it) for x in a)


def section(scn, lab, n=None):
    marks = dict((m, p) for p, m in scn.marks)
    if lab not in marks:
        return []
    start = marks[lab]
    return scn.inputs[start:start + n] if n is not None else scn.inputs[start:]


def trace(inputs):
    return [tuple((e[0], e[3]) if e[0] == "T" else (e[0], e[1]) for e in i.ev if e[0] in ("T", "Z")) for i in inputs]


def make_monitor(refs):
    def monitor(scn, sobj, rep, sf, ck):
        meta = sobj.meta
        base = meta["base"]
        rep.evaluations += 1
        rep.count("runs:" + meta.get("kind", "?"))

        def bad(key, msg):
            rep.violation("C18:%s" % key, "scenario %s (%s, fault %s): %s" % (scn.sid, base, meta.get("fault"), msg), replay=sobj.text())
        for key, txt in sf:
            bad("%s:%s" % (key, base if key.startswith("ubsan") else meta.get("kind")), "sanitizer report under fault:\n" + txt[:1200])
        if ck and not sf:
            bad("crash:%s:%s" % (ck, meta.get("kind")), "child died: %s" % scn.stderr[-400:])
        ref = refs.get(base)
        # ledger after "fault cleared, Reset" (recorded before the process exits, so also available when LeakSanitizer
        # later turns the exit status non-zero)
        led0 = scn.ledgers[-1][1] if scn.ledgers else None
        if ref is not None and led0 is not None and meta.get("kind") != "ref" and ref.get("ledger") is not None:
            rep.count("ledger_comparisons")
            if led0[:2] != ref["ledger"][:2]:
                bad("leak-after-fault:%s" % meta.get("kind"), "after fault cleared + Reset: %d allocations / %d bytes live, fault-free run: %d / %d"
                    % (led0[0], led0[1], ref["ledger"][0], ref["ledger"][1]))
        if scn.status != "exit" or (scn.code != 0 and not any(k.startswith("lsan:") for k, _ in sf)):
            return
        req = section(scn, "request", meta["nreq"])
        mtu = meta["mtu"]
        # the response under fault
        sent = [e[3] for i in req for e in i.sends()]
        for raw in sent:
            if raw is None or len(raw) < 32:
                bad("malformed-frame-under-fault", "frame of %s bytes" % (len(raw) if raw else None))
                continue
            f = W.decode(raw)
            probs = M.check_common(f, OWN, mtu) + M.check_structure(f, mtu)
            if meta.get("getter_fail") is not None and (meta["getter_fail"] & 2):
                probs = [p for p in probs if p != "real-source-not-own"]
            for p in probs:
                bad("malformed-frame-under-fault:%s" % p.split(":")[0], "%s frame=%s" % (p, raw.hex()[:160]))
        # requests that arrive after the fault has cleared have no fault of their own: whatever answers them is a well-formed frame
        # that carries the number of the request it answers (not the number of a request the fault left unanswered, or of the
        # one answered before it)
        pf = meta.get("post_frames") or []
        if pf:
            allin = section(scn, "request", meta["nreq"] + len(pf))
            for k, i in enumerate(allin[meta["nreq"]:]):
                fr = pf[k]
                want_seq = int.from_bytes(fr[30:32], "big")
                for e in i.sends():
                    raw = e[3]
                    if raw is None or len(raw) < 32:
                        continue
                    rep.count("frames_after_the_fault_judged")
                    g = W.decode(raw)
                    if fr[17] in (W.OP_QUERY, W.OP_QLT) and g.opcode in (W.OP_QUERYRESP, W.OP_QLTRESP) and want_seq != 0 and g.seq != want_seq:
                        bad("request-after-the-fault-answered-with-another-number:%s" % meta.get("kind"),
                            "request %d after the fault cleared (opcode %d, sequence number %d) was answered by a frame carrying %d: %s"
                            % (k + 1, fr[17], want_seq, g.seq, raw.hex()[:120]))
        if meta.get("kind") == "alloc":
            # observations: a Probe/Train whose own handling was not hit by the fault is recorded as usual, so every pair
            # seen in such a frame is listed by the Queries that follow (when those were not hit either and drained the list)
            want, listed, q_ok, last_more = set(), set(), True, False
            for i in req:
                for e in i.sends():
                    raw = e[3]
                    if raw and len(raw) >= 34 and raw[17] == W.OP_QUERYRESP:
                        more, _err, _n, descs = W.queryresp_fields(raw)
                        last_more = more
                        for (_kind, rsrc, esrc, _edst) in descs:
                            listed.add((esrc, rsrc))
            rfr = sobj.meta.get("request_frames", [])
            for k, i in enumerate(req):
                if k >= len(rfr):
                    break
                fr = rfr[k]
                refused = any(e[0] == "m" for e in i.ev)
                if fr[17] in (W.OP_PROBE, W.OP_TRAIN) and fr[18:24] == OWN and not refused:
                    want.add((fr[6:12], fr[24:30]))
                if fr[17] == W.OP_QUERY and (refused or i.out is None or i.out[0] != 1):
                    q_ok = False
            if want and q_ok and not last_more and any(f[17] == W.OP_QUERY for f in rfr):
                rep.count("observation_sets_compared_under_allocation_failure")
                lost = want - listed
                if lost:
                    bad("observation-from-an-unaffected-probe-lost:alloc", "pairs %s were seen in Probe/Train frames whose handling was not hit by "
                        "the fault, the Queries were answered and drained the list, yet they are not reported (listed: %d)"
                        % (sorted((a.hex(), b.hex()) for a, b in lost)[:4], len(listed)))
        if ref is not None and meta.get("kind") in ("alloc", "send"):
            a = [proj(r) for r in sent]
            b = ref["proj"]
            if meta.get("kind") == "send":
                pass
            if not is_subseq(a, b):
                bad("different-frames-under-fault:%s" % meta.get("kind"),
                    "frames accepted by the port are not a subsequence of the fault-free response: %s vs fault-free %s"
                    % ([(p[0], p[5].hex()) if p else None for p in a], [(p[0], p[5].hex()) for p in b]))
            else:
                rep.nontrivial((base, meta.get("fault")))
        elif meta.get("kind") == "getter":
            # a failing getter legitimately changes frame content, but not which frames are sent: answered partially or
            # not at all means no frame the fault-free responder would not have sent
            if meta.get("positive_rc"):
                rep.count("runs:getter-positive-return-code")
            if ref is not None:
                a, b = [r[17] for r in sent if r and len(r) >= 18], [p[0] for p in ref["proj"] if p]
                if not is_subseq(a, b):
                    bad("more-frames-under-getter-failure", "opcodes sent %s, fault-free %s" % (a, b))
                # a Hello under getter failures: every property whose getter did not fail is exactly the fault-free one, and
                # nothing appears that the fault-free Hello does not carry
                h_f = [r for r in sent if r and len(r) > 46 and r[17] == W.OP_HELLO]
                h_r = [r for r in ref.get("raws", []) if r and len(r) > 46 and r[17] == W.OP_HELLO]
                if len(h_f) == 1 and len(h_r) == 1:
                    mask = meta["getter_fail"]
                    affected = set()
                    for bit, types in GETTER_TLVS.items():
                        if mask & (1 << bit):
                            affected |= types
                    tf, _e1, _x1 = W.parse_tlvs(h_f[0][46:])
                    tr, _e2, _x2 = W.parse_tlvs(h_r[0][46:])
                    df, dr = dict(tf), dict(tr)
                    wifi_off = bool(mask & (1 << 6))
                    rep.count("hellos_compared_under_getter_failure")
                    for ty, v in tr:
                        if ty in affected or (wifi_off and ty not in CORE_TLVS):
                            continue
                        if ty not in df:
                            bad("unaffected-property-missing-under-getter-failure:%#x" % ty, "property %#x is carried by the fault-free Hello, "
                                "its getter did not fail, but it is missing" % ty)
                        elif df[ty] != v:
                            bad("unaffected-property-changed-under-getter-failure:%#x" % ty, "property %#x = %s, fault-free %s"
                                % (ty, df[ty].hex(), v.hex()))
                    for ty, v in tf:
                        if ty not in dr:
                            bad("property-invented-under-getter-failure:%#x" % ty, "property %#x = %s is not in the fault-free Hello" % (ty, v.hex()))
            rep.nontrivial((base, meta.get("fault")))
        # continuation equals a fresh instance's
        n = len(CONT) + 1
        tp, tq = trace(section(scn, "contP", n)), trace(section(scn, "contQ", n))
        if len(tp) == n and len(tq) == n:
            rep.count("continuations_compared")
        if tp != tq:
            j = next((k for k in range(min(len(tp), len(tq))) if tp[k] != tq[k]), -1)
            bad("not-fresh-after-fault-and-reset:%s" % meta.get("kind"), "continuation input %d differs from a fresh instance" % j)
    return monitor


def ref_monitor_factory(store):
    def mon(scn, sobj, rep, sf, ck):
        meta = sobj.meta
        req = section(scn, "request", meta["nreq"])
        st = dict(allocs=sum(i.out[4] for i in req if i.out), sends=sum(i.out[0] for i in req if i.out),
                  proj=[proj(e[3]) for i in req for e in i.sends()],
                  raws=[e[3] for i in req for e in i.sends()],
                  ledger=scn.ledgers[-1][1] if scn.ledgers else None, clean=scn.clean)
        rep.extra.setdefault("_refs", {})[meta["base"]] = st
        for key, txt in sf:
            rep.violation("C18:fault-free:" + key, "fault-free reference run of %s:\n%s" % (meta["base"], txt[:800]))
    return mon


def ctor_scenarios():
    scns = []
    for which in "MSET":
        for k in (1, 2, 3):
            for mode in (0, 1):
                s = H.Scenario("ctor-%s-%d-%d" % (which, k, mode), meta=dict(kind="ctor", which=which, k=k, mode=mode, fault="malloc#%d/%s" % (k, "persistent" if mode else "once")))
                s.iface(0, **H.iface_kw(cfg_for(0)))
                s.add("OPT sleep=0")
                s.add("LEDGER")
                s.add("FAULT malloc %d %d" % (k, mode))
                s.add("AC 0 %s" % which)
                s.add("CLEAR")
                s.add("LEDGER")
                # use whatever came back
                s.add({"M": "SM 0 0", "S": "SS 0 2", "E": "SE 0 3", "T": "TE 0"}[which])
                if which == "T":
                    s.add("TA 0 02aa00000001 1 1")
                s.add("K 0")
                s.add("ADV 61000")
                s.add("K 0")
                scns.append(s)
    # a daemon whose session table could not be created at start-up (the daemons do not check): every table function and the
    # tick take a missing table; the mapping engine still runs its time-outs
    disc = W.discover(MAPPER, 0x0101, 0x0202, [], tos=0)
    for variant in range(4):
        s = H.Scenario("ctor-notable-%d" % variant, meta=dict(kind="ctor", which="T", k=1, mode=1, fault="no session table", notable=True))
        s.iface(0, **H.iface_kw(cfg_for(0)))
        s.add("OPT sleep=0")
        s.add("AC 0 M")
        s.add("AC 0 S")
        s.add("AC 0 E")
        s.add("LEDGER")
        s.add("FAULT malloc 1 1")
        s.add("AC 0 T")
        s.add("CLEAR")
        s.add("LEDGER")
        s.add("OPT noensure=1")
        s.frame(0, disc, op="W")
        s.add("K 0")
        if variant & 1:
            s.frame(0, W.simple(W.OP_CHARGE, OWN, MAPPER, 3), op="W")
        s.frame(0, W.probe(OWN, S1, OWN, S1), op="W")
        s.add("ADV %d" % (31000 if variant < 2 else 61000))
        s.add("K 0")
        s.add("KR 0 5 100")
        s.frame(0, disc, op="W")
        s.frame(0, W.reset(MAPPER, tos=0), op="W")
        s.add("ADV 31000")
        s.add("K 0")
        scns.append(s)
    return scns


def ctor_monitor(scn, sobj, rep, sf, ck):
    meta = sobj.meta
    rep.evaluations += 1
    rep.count("runs:ctor")
    for key, txt in sf:
        fn = key.split(":")[-1]
        rep.violation("C18:constructor-dereferences-failed-allocation:%s" % fn if "SEGV" in key else "C18:ctor:" + key,
                      "scenario %s: constructor %s with allocation #%d failing (%s):\n%s"
                      % (scn.sid, meta["which"], meta["k"], "persistent" if meta["mode"] else "once", txt[:1000]), replay=sobj.text())
    if ck and not sf:
        rep.violation("C18:ctor-crash:" + ck, "scenario %s" % scn.sid, replay=sobj.text())
    if not scn.clean:
        return
    r = None
    for e in scn.inputs[0].ev:
        if e[0] == "R":
            r = e[1]
    if len(scn.ledgers) >= 2:
        before, after = scn.ledgers[0][1], scn.ledgers[1][1]
        if r == 0 and after[0] != before[0]:
            rep.violation("C18:constructor-reports-failure-but-leaks:%s" % meta["which"],
                          "scenario %s: constructor returned NULL with %d allocation(s) still live" % (scn.sid, after[0] - before[0]), replay=sobj.text())
    rep.nontrivial(("ctor", meta["which"], meta["k"], meta["mode"], r))
    rep.count("ctor_result:%s" % ("null" if r == 0 else "object"))


def run(ctx):
    rep = ctx.report
    rep.level = "fault_enumeration"
    rep.rule = ("fixed corpus of 12 scenarios covering every request type; for each, every k up to the fault-free allocation count: "
                "fail the k-th allocation once and from k on; fail the j-th and every transmit; getter-failure subsets (all singles, "
                "pairs, sampled larger subsets; all 2^16 in the thorough tier); constructors under k-th-allocation failure. Judged: "
                "no sanitizer report/crash, frames under fault are a well-formed subsequence of the fault-free response, ledger after "
                "'fault cleared + Reset' equals the fault-free run's, continuation equals a fresh instance's. distinct_nontrivial = "
                "distinct (scenario, fault) pairs judged to the end")
    rep.assumptions = ["when the MTU getter fails the core assumes 1500 bytes, which is the receive-buffer size in those runs",
                       "a failing getter legitimately changes frame content; only well-formedness is judged there"]
    binary = H.build(ctx.work, "asan")
    corp = corpus()
    # phase 1: fault-free references
    refs_scns = []
    for c in corp:
        s = build_scn("ref-" + c["name"], c, [])
        s.meta["kind"] = "ref"
        refs_scns.append(s)
    store = {}
    orig_merge = rep.merge

    def merge_refs(other):
        r = other.extra.pop("_refs", None)
        if r:
            store.update(r)
        orig_merge(other)
    rep.merge = merge_refs
    run_monitored(ctx, binary, refs_scns, ref_monitor_factory(store), tag="ref", env_extra={"ASAN_OPTIONS": "detect_leaks=1"})
    rep.merge = orig_merge
    for c in corp:
        if c["name"] not in store or not store[c["name"]]["clean"]:
            rep.inconclusive.append("fault-free reference of %s did not complete" % c["name"])
    rep.extra["allocations_per_scenario"] = {k: v["allocs"] for k, v in store.items()}
    rep.extra["transmits_per_scenario"] = {k: v["sends"] for k, v in store.items()}
    # phase 2: faults
    scns = []
    for c in corp:
        st = store.get(c["name"])
        if not st:
            continue
        for k in range(1, st["allocs"] + 2):
            for mode in (0, 1):
                s = build_scn("%s-m%d-%d" % (c["name"], k, mode), c, ["FAULT malloc %d %d" % (k, mode)])
                s.meta.update(kind="alloc", fault="malloc#%d/%s" % (k, "persistent" if mode else "once"))
                scns.append(s)
        for j in range(1, st["sends"] + 1):
            s = build_scn("%s-s%d" % (c["name"], j), c, ["FAULT send %d 0" % j])
            s.meta.update(kind="send", fault="send#%d/once" % j)
            scns.append(s)
        s = build_scn("%s-sall" % c["name"], c, ["FAULT send 1 1"])
        s.meta.update(kind="send", fault="send#1/persistent")
        scns.append(s)
    # getter subsets (MTU stays 1500)
    rng = G.rng_for(ctx.seed, "C18", 0)
    subsets = [1 << b for b in GETTER_BITS] + [(1 << a) | (1 << b) for a, b in itertools.combinations(GETTER_BITS, 2)]
    if ctx.quick:
        subsets += [rng.getrandbits(16) for _ in range(500)]
    else:
        subsets = list(range(1, 1 << 16))
    for c in corp:
        if c["mtu"] != 1500 or c["name"] not in ("discover-wired", "discover-wifi", "qlt-icon", "qlt-friendly-name", "qlt-hardware-id", "emit-3",
                                                  "probes-query", "emit-count-beyond-frame", "discover-count-beyond-frame", "qlt-offset-past-end"):
            continue
        sub = subsets if c["name"] in ("discover-wifi",) or ctx.quick else subsets[::37]
        if ctx.quick and c["name"] not in ("discover-wired", "discover-wifi"):
            sub = subsets[:136]
        for gi, m in enumerate(sub):
            rcs = [-1, 1] if gi < len(GETTER_BITS) else [(-1, 1, 2, -7, 0x7fffffff)[gi % 5]]
            for rc in rcs:
                s = build_scn("%s-g%04x%s" % (c["name"], m, "p" if rc > 0 else "n"), c, [], getter_fail=m, failrc=rc)
                s.meta.update(kind="getter", fault="getters=%#06x failing with return value %d" % (m, rc))
                if rc > 0:
                    s.meta["positive_rc"] = True
                scns.append(s)
    run_monitored(ctx, binary, scns, make_monitor(store), tag="fault", env_extra={"ASAN_OPTIONS": "detect_leaks=1"})
    run_monitored(ctx, binary, ctor_scenarios(), ctor_monitor, tag="ctor")
    c = rep.counters
    rep.need("runs:alloc", c.get("runs:alloc", 0), 50)
    rep.need("runs:send", c.get("runs:send", 0), 30)
    rep.need("runs:getter", c.get("runs:getter", 0), 500)
    rep.need("observation_sets_compared_under_allocation_failure", c.get("observation_sets_compared_under_allocation_failure", 0), 5)
    rep.need("hellos_compared_under_getter_failure", c.get("hellos_compared_under_getter_failure", 0), 300)
    rep.need("runs:getter-positive-return-code", c.get("runs:getter-positive-return-code", 0), 100)
    rep.need("runs:ctor", c.get("runs:ctor", 0), 24)
    rep.need("ledger_comparisons", c.get("ledger_comparisons", 0), 500)
    rep.need("continuations_compared", c.get("continuations_compared", 0), 500)
    rep.sample(dict(corpus=[x["name"] for x in corp], example_fault="emit-3: FAULT malloc 2 (once) before the Emit, CLEAR, Reset, LEDGER, continuation on P and on fresh Q"))
