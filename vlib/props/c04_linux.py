"""C04, Linux layer: the real os/linux/lltd_port.c linked with the core."""
import os
import struct
import subprocess

from .. import gen as G
from .. import harness as H
from .. import wire as W

IFM_FDX = 0x0010        # the value os/linux/lltd_port.c falls back to on Linux (no <net/if_media.h>)
IFF_LOOPBACK = 0x8


def records(ctx, count):
    rng = G.rng_for(ctx.seed, "C04L", 0)
    out = []
    for i in range(count):
        speed = int.from_bytes(G.edge_word(rng, 4), "big") if rng.random() < 0.5 else \
            rng.choice([0, 1, 99, 100, 101, 199, 10 ** 7, 10 ** 8, 10 ** 9, 4294967295, 1000000000 - 1])
        out.append(dict(mac=G.rand_mac(rng) if rng.random() < 0.7 else G.edge_word(rng, 6),
                        mtu=rng.choice([576, 1500, 9000, 9216, rng.randint(576, 9216)]),
                        iftype=int.from_bytes(G.edge_word(rng, 4), "big"),
                        medium=rng.choice([0, IFM_FDX, 0xFFFFFFFF, 0xFFFFFFEF, rng.getrandbits(32)]),
                        speed=speed, flags=rng.choice([0, IFF_LOOPBACK, 0xFFFF, 0xFFF7, rng.getrandbits(16)]),
                        ipv4=G.edge_word(rng, 4) if rng.random() < 0.85 else None,
                        ipv6=G.edge_word(rng, 16) if rng.random() < 0.85 else None,
                        host=G.rand_name(rng, 40, True) if rng.random() < 0.95 else None))
    return out


def build(ctx):
    cc, flags = H.FLAVOURS["asan"]
    out = os.path.join(ctx.work.sub("bin"), "vh_linuxport")
    srcs = [os.path.join(H.HARN, "vh_linuxport.c"), os.path.join(H.REPO, "os/linux/lltd_port.c")] + \
        [os.path.join(H.REPO, s) for s in H.CORE]
    cmd = [cc] + flags + [H.HOOK_DEFINE, "-w", "-I" + os.path.join(H.REPO, "lltdResponder"), "-I" + os.path.join(H.REPO, "os/linux"),
                          "-o", out] + srcs
    r = subprocess.run(cmd, stdout=subprocess.PIPE, stderr=subprocess.STDOUT, text=True)
    if r.returncode != 0:
        raise H.BuildError("vh_linuxport: " + r.stdout[-3000:])
    return out


def record_line(x):
    return "%s %d %d %d %d %d %s %s %s" % (x["mac"].hex(), x["mtu"], x["iftype"], x["medium"], x["speed"], x["flags"],
                                          x["ipv4"].hex() if x["ipv4"] else "-", x["ipv6"].hex() if x["ipv6"] else "-",
                                          "!" if x["host"] is None else (x["host"].hex() or "-"))


def run(ctx):
    rep = ctx.report
    out = build(ctx)
    recs = records(ctx, ctx.n(5000, 200000))
    lines = []
    for x in recs:
        lines.append(record_line(x))
    env = dict(os.environ)
    env.update(H.SAN_ENV)
    p = subprocess.run([out], input="\n".join(lines) + "\n", stdout=subprocess.PIPE, stderr=subprocess.PIPE, text=True, env=env,
                       timeout=3600)
    for key, txt in H.sanitizer_findings(p.stderr):
        rep.count("sanitizer:" + key)
    if p.returncode != 0:
        rep.inconclusive.append("vh_linuxport exited %d: %s" % (p.returncode, p.stderr[-500:]))
    n = 0
    for ln in p.stdout.split("\n"):
        if not ln.startswith("REC "):
            continue
        parts = ln.split(" ")
        i = int(parts[1])
        kv = dict(x.split("=", 1) for x in parts[2:9])
        hello = bytes.fromhex(parts[10]) if len(parts) > 10 else b""
        x = recs[i]
        n += 1
        rep.evaluations += 1

        def bad(key, msg):
            rep.violation("C04:linux:" + key, "record %d %s: %s" % (i, {k: (v.hex() if isinstance(v, bytes) else v) for k, v in x.items()}, msg),
                          replay="# vh_linuxport record:\n# %s\n" % lines[i])
        if bytes.fromhex(kv["mac"]) != x["mac"]:
            bad("address-not-copied", "lltd_port_get_mac_address -> %s" % kv["mac"])
        if int(kv["mtu"]) != x["mtu"]:
            bad("mtu-not-copied", "lltd_port_get_mtu -> %s" % kv["mtu"])
        if int(kv["iftype"]) != x["iftype"]:
            bad("type-not-copied", "lltd_port_get_if_type -> %s" % kv["iftype"])
        sp = int(kv["speed"])
        if abs(x["speed"] - 100 * sp) >= 100:
            bad("link-speed-conversion", "LinkSpeed %d bit/s -> %d units of 100 bit/s" % (x["speed"], sp))
        fl = int(kv["chflags"])
        if bool(fl & 0x2000) != bool(x["medium"] & IFM_FDX):
            bad("duplex-bit", "characteristics %#x, MediumType %#x" % (fl, x["medium"]))
        if bool(fl & 0x0800) != bool(x["flags"] & IFF_LOOPBACK):
            bad("loopback-bit", "characteristics %#x, flags %#x" % (fl, x["flags"]))
        if kv["sends"] != "1" or len(hello) < 47 or hello[17] != W.OP_HELLO:
            bad("no-hello", "sends=%s frame=%s" % (kv["sends"], hello.hex()[:80]))
            continue
        tlvs, end, err = W.parse_tlvs(hello[46:])
        if err:
            bad("hello-does-not-parse", err)
            continue
        d = {}
        for ty, v in tlvs:
            d.setdefault(ty, v)
        if d.get(W.TLV_HOSTID) != x["mac"]:
            bad("hello:hardware-address", "%s" % d.get(W.TLV_HOSTID))
        want_ch = (0x2000 if x["medium"] & IFM_FDX else 0) | (0x0800 if x["flags"] & IFF_LOOPBACK else 0)
        if d.get(W.TLV_CHAR) != struct.pack(">I", want_ch << 16):
            bad("hello:characteristics", "%s expected %#x<<16" % (d.get(W.TLV_CHAR).hex() if d.get(W.TLV_CHAR) else None, want_ch))
        if d.get(W.TLV_IFTYPE) != struct.pack(">I", x["iftype"]):
            bad("hello:interface-type", "%s" % d.get(W.TLV_IFTYPE))
        ls = d.get(W.TLV_LINKSPEED)
        if ls is None or abs(x["speed"] - 100 * struct.unpack(">I", ls)[0]) >= 100:
            bad("hello:link-speed", "%s for %d bit/s" % (ls.hex() if ls else None, x["speed"]))
        if x["ipv4"] is not None and d.get(W.TLV_IPV4) != x["ipv4"]:
            bad("hello:ipv4", "%s" % d.get(W.TLV_IPV4))
        if x["ipv6"] is not None and d.get(W.TLV_IPV6) != x["ipv6"]:
            bad("hello:ipv6", "%s" % d.get(W.TLV_IPV6))
        if x["host"] is not None and d.get(W.TLV_HOSTNAME) != x["host"][:32]:
            bad("hello:machine-name", "%s expected %s" % (d.get(W.TLV_HOSTNAME), x["host"][:32]))
        for ty in (W.TLV_WIFIMODE, W.TLV_BSSID, W.TLV_SSID, W.TLV_MAXRATE, W.TLV_RSSI):
            if ty in d:
                bad("hello:wireless-property-from-wired-port", "property %#x" % ty)
        rep.nontrivial(("linux", lines[i]))
    rep.count("linux_records", n)
    rep.need("linux_records", n, ctx.n(5000, 200000))
    if recs:
        rep.sample(dict(linux_record=lines[0]))
