"""C16 - the session table stays consistent under any sequence of operations."""
from .. import gen as G
from .. import harness as H
from ..runner import run_monitored


def make_scenarios(ctx, count, nops):
    scns = []
    for i in range(count):
        rng = G.rng_for(ctx.seed, "C16", i)
        macs = G.distinct_macs(rng, 8)
        gens = rng.sample([0, 1, 2, 0x00FF, 0xFF00, 0xFFFF, 0x1234], 3)
        if i % 3 == 1:
            # neighbouring keys: addresses that differ from a base address in exactly one byte (low or high bit),
            # generations that differ in one byte - a key comparison that drops a byte shows up as a collision
            basem = macs[0]
            macs = [basem] + [basem[:p] + bytes([basem[p] ^ x]) + basem[p + 1:] for p in range(6) for x in (0x01, 0x80)]
            gens = [0x0101, 0x0100, 0x0001]
        keys = rng.sample([(m, g) for m in macs for g in gens], rng.randint(20, 24))
        style = rng.choice(["fill", "churn", "expiry"])
        ops = []
        now = rng.choice([1, 999, 1000, 5000, 123456, (1 << 32) - 70000, 4294967296000 - 100000, 4294967296000 - 75000, 4294967296000 - 10000, 1 << 45])
        subsec = rng.random() < 0.3          # some sequences move the clock by arbitrary milliseconds
        s = H.Scenario("t%d" % i)
        s.iface(0, mtu=1500, mac=G.rand_mac(rng))
        s.add("OPT sleep=0 in=1 asnap=1")
        s.add("NOW %d" % now)
        s.add("AI 0")
        ops.append(("AI",))
        # half of the sequences run beside a second interface of the same process (own table, own sessions) that the
        # daemon's loop ticks first in every pass; its inputs are not judged, the table under test must not notice it
        shadow = i % 2 == 1
        if shadow:
            s.iface(1, mtu=1500, mac=G.rand_mac(rng))
            s.add("AI 1")
            s.add("TA 1 %s 1 1" % G.rand_mac(rng).hex())
        last_seq = {}
        full_at = rng.randrange(nops) if rng.random() < 0.3 else -1
        for opno in range(nops):
            if opno == full_at:
                # a table that is full and in which every session is complete, then a mapper that is not in it
                s.add("TC 0")
                ops.append(("TC",))
                for k in keys[:16]:
                    sq = rng.getrandbits(16)
                    last_seq[k] = sq
                    s.add("TA 0 %s %d %d" % (k[0].hex(), k[1], sq))
                    ops.append(("TA", k, sq))
                for k in keys[:16]:
                    s.add("TM 0 %s %d 1" % (k[0].hex(), k[1]))
                    ops.append(("TM", k, 1))
                s.add("TQ 0")
                ops.append(("TQ",))
                for k in keys[16:18]:
                    sq = rng.getrandbits(16)
                    s.add("TA 0 %s %d %d" % (k[0].hex(), k[1], sq))
                    ops.append(("TA", k, sq))
                    s.add("TQ 0")
                    ops.append(("TQ",))
            r = rng.random()
            k = rng.choice(keys)
            p_add = {"fill": 0.5, "churn": 0.35, "expiry": 0.3}[style]
            if r < p_add:
                # a retransmitted Discover re-adds its session under the sequence number it already has
                seq = last_seq[k] if (k in last_seq and rng.random() < 0.5) else rng.choice([0, 0xFFFF, rng.getrandbits(16), rng.getrandbits(16)])
                last_seq[k] = seq
                s.add("TA 0 %s %d %d" % (k[0].hex(), k[1], seq))
                ops.append(("TA", k, seq))
            elif r < p_add + 0.12:
                s.add("TF 0 %s %d 0" % (k[0].hex(), k[1]))
                ops.append(("TF", k))
            elif r < p_add + 0.2:
                s.add("TR 0 %s %d" % (k[0].hex(), k[1]))
                ops.append(("TR", k))
            elif r < p_add + 0.3:
                c = rng.choice([1, 1, 1, 0])
                s.add("TM 0 %s %d %d" % (k[0].hex(), k[1], c))
                ops.append(("TM", k, c))
            elif r < p_add + 0.42:
                secs = rng.choice([0, 1, 1, 2, 29, 30, 31, 59, 60, 61, 61, 62, 119, 120, 121, 200]) \
                    if style == "expiry" or rng.random() < 0.5 else rng.randint(0, 5)
                if rng.random() < 0.04:
                    # a very long time without a tick (the daemon was stopped, the machine slept): idle times that no longer
                    # fit 32 bits of milliseconds, 31 / 32 bits of seconds
                    secs = rng.choice([65536, 65597, 4294967, 4294968, 4295000, 4295027, 4295028, 8589936, 2 ** 31, 2 ** 32 + 30, 2 ** 33])
                ms = secs * 1000 + (rng.choice([0, 1, 499, 500, 999]) if subsec else 0)
                s.add("ADV %d" % ms)
                ops.append(("ADV", ms))
            elif r < p_add + 0.52:
                if shadow and rng.random() < 0.8:
                    if rng.random() < 0.2:
                        s.add("TA 1 %s %d 1" % (G.rand_mac(rng).hex(), rng.randint(0, 3)))
                    s.add("K 1")
                s.add("K 0")
                ops.append(("K",))
            elif r < p_add + 0.53:
                s.add("TC 0")
                ops.append(("TC",))
            elif r < p_add + 0.56:
                s.add("TE 0")
                ops.append(("TE",))
            elif r < p_add + 0.59:
                s.add("TQ 0")
                ops.append(("TQ",))
            else:
                s.add("TU 0")
                ops.append(("TU",))
        s.meta = dict(ops=ops, now=now, subsec=subsec, shadow=shadow)
        scns.append(s)
    return scns


def snap_table(inp):
    for e in reversed(inp.ev):
        if e[0] == "A" and e[1] == "T":
            f = e[2]
            count, allc = int(f[0]), int(f[1])
            ents = {}
            for tok in f[2:]:
                p = tok.split(":")
                ents[int(p[0])] = (bytes.fromhex(p[1]), int(p[2]), int(p[3]), int(p[4]), int(p[5]), int(p[6]), int(p[7]))
            return count, allc, ents
    return None


def retval(inp):
    for e in inp.ev:
        if e[0] == "R":
            return e[1]
    return None


def monitor(scn, sobj, rep, sf, ck):
    ops = sobj.meta["ops"]
    for key, txt in sf:
        # a table operation that makes the sanitizer stop the process has disturbed more than the table
        rep.violation("C16:" + key, "scenario %s: sanitizer report during a table operation:\n%s" % (scn.sid, txt[:1200]), replay=sobj.text())
    if ck and not sf:
        rep.violation("C16:crash:" + ck, "scenario %s: the process died during a table operation: %s" % (scn.sid, scn.stderr[-300:]), replay=sobj.text())
    now_ms = sobj.meta["now"]
    model = {}      # key -> dict(seq, complete, last, slot)
    prev_ents = {}
    it = iter(i for i in scn.inputs if i.iface == 0)
    seen = set()
    nops = 0
    if sobj.meta.get("shadow"):
        rep.count("ticks_beside_a_second_interface", sum(1 for i in scn.inputs if i.iface == 1 and i.op == "K"))

    def bad(key, msg, i):
        rep.violation("C16:" + key, "scenario %s op #%d %r: %s" % (scn.sid, i, ops[i], msg), replay=sobj.text())

    for i, op in enumerate(ops):
        if op[0] == "ADV":
            now_ms += op[1]
            continue
        inp = next(it, None)
        if inp is None or inp.out is None:
            break
        now_s = now_ms // 1000
        snap = snap_table(inp)
        if snap is None:
            continue
        count, allc, ents = snap
        r = retval(inp)
        nops += 1
        kind = op[0]
        if kind == "TA":
            k, seq = op[1], op[2]
            at_r = ents.get(r) if r is not None and r >= 0 else None
            if k in model:
                seen.add("refresh")
                m = model[k]
                if m["seq"] == seq:
                    seen.add("refresh-with-unchanged-sequence-number")
                if at_r is None or (at_r[0], at_r[1]) != k:
                    bad("add-known-key-does-not-return-its-session", "returned slot %s which holds %s" %
                        (r, (at_r[0].hex(), at_r[1]) if at_r else None), i)
                m["seq"], m["last"], m["last_ms"] = seq, now_s, now_ms
            elif len(model) < 16:
                seen.add("insert")
                if r is None or r < 0:
                    bad("add-fails-with-room", "returned %s with %d live sessions" % (r, len(model)), i)
                else:
                    if at_r is None or (at_r[0], at_r[1]) != k:
                        bad("add-returns-wrong-entry", "returned slot %s which holds %s" % (r, (at_r[0].hex(), at_r[1]) if at_r else None), i)
                    model[k] = dict(seq=seq, complete=0, last=now_s, last_ms=now_ms, slot=r)
            else:
                seen.add("full-reject")
                if all(m["complete"] for m in model.values()):
                    seen.add("full-reject-while-all-complete")
                if r != -1:
                    bad("add-to-full-table-succeeds", "returned slot %s with 16 live sessions" % r, i)
                if sorted(ents.values()) != sorted(prev_ents.values()):
                    bad("add-to-full-table-disturbs-entries", "entries changed: %s" % _diff(prev_ents, ents), i)
        elif kind == "TF":
            k = op[1]
            at_r = ents.get(r) if r is not None and r >= 0 else None
            if (r is not None and r >= 0) != (k in model):
                bad("find-disagrees-with-model", "find returned %s, key %s in model" % (r, "is" if k in model else "is not"), i)
            elif k in model and (at_r is None or (at_r[0], at_r[1]) != k):
                bad("find-returns-wrong-entry", "find returned slot %s which holds %s" % (r, (at_r[0].hex(), at_r[1]) if at_r else None), i)
            seen.add("find-hit" if k in model else "find-miss")
        elif kind == "TR":
            if op[1] in model:
                seen.add("remove")
                del model[op[1]]
        elif kind == "TM":
            if op[1] in model:
                model[op[1]]["complete"] = op[2]
                seen.add("complete-set" if op[2] else "complete-cleared")
        elif kind == "TC":
            if model:
                seen.add("clear")
            model.clear()
        elif kind == "K":
            live_keys = set((e[0], e[1]) for e in ents.values())
            dead = []
            for k, m in model.items():
                idle_ms = now_ms - m["last_ms"]
                if idle_ms >= 61000 or (not sobj.meta.get("subsec") and now_s > m["last"] + 60):
                    dead.append(k)                       # idle for more than 60 s (whole seconds: exact)
                elif idle_ms > 60000 and sobj.meta.get("subsec") and k not in live_keys:
                    dead.append(k)                       # 60 s < idle < 61 s on a millisecond clock: either outcome is in order
            if dead:
                seen.add("expiry-with-survivors" if len(dead) < len(model) else "expiry-all")
            for k in dead:
                del model[k]
        elif kind == "TE":
            if r != (0 if model else 1):
                bad("is-empty-wrong", "is_empty=%s with %d live sessions" % (r, len(model)), i)
        elif kind == "TQ":
            want = 1 if all(m["complete"] for m in model.values()) else 0
            if r != want:
                bad("all-complete-wrong", "all_complete()=%s, live sessions complete flags %s" % (r, [m["complete"] for m in model.values()]), i)
        # global invariants on the public fields
        keys = [(e[0], e[1]) for e in ents.values()]
        if len(set(keys)) != len(keys):
            bad("duplicate-key", "two live entries share (mapper, generation): %s" % sorted((k[0].hex(), k[1]) for k in keys), i)
        if len(ents) > 16:
            bad("more-than-16", "%d live entries" % len(ents), i)
        if count != len(ents):
            bad("count-differs-from-live-entries", "count=%d live=%d" % (count, len(ents)), i)
        if set(keys) != set(model.keys()):
            extra = set(keys) - set(model)
            miss = set(model) - set(keys)
            why = "session-lost" if miss and kind != "K" else "stale-session-survives" if extra else "fresh-session-expired"
            bad("contents:" + why + (":tick" if kind == "K" else ""),
                "model has %d sessions, table %d; missing %s unexpected %s; now=%ds" %
                (len(model), len(ents), sorted((k[0].hex(), k[1]) for k in miss), sorted((k[0].hex(), k[1]) for k in extra), now_s), i)
            # resynchronise so one defect is not reported at every later step
            model = {(e[0], e[1]): dict(seq=e[2], complete=e[4], last=e[5], last_ms=e[5] * 1000, slot=s) for s, e in ents.items()}
        else:
            for s, e in ents.items():
                m = model[(e[0], e[1])]
                m["slot"] = s
                if e[2] != m["seq"]:
                    bad("seq-not-refreshed", "seq=%d expected %d" % (e[2], m["seq"]), i)
                    m["seq"] = e[2]
                if e[5] != m["last"]:
                    bad("activity-not-refreshed", "last_activity=%d expected %d" % (e[5], m["last"]), i)
                    m["last"] = e[5]
                if e[4] != m["complete"]:
                    bad("complete-flag-differs", "complete=%d expected %d" % (e[4], m["complete"]), i)
                    m["complete"] = e[4]
        want_all = 1 if all(m["complete"] for m in model.values()) else 0
        if allc != want_all:
            bad("all-complete-flag-stale", "all_complete=%d but live complete flags are %s" % (allc, [m["complete"] for m in model.values()]), i)
        seen.add("allc=%d/%s" % (allc, "empty" if not model else "nonempty"))
        prev_ents = ents
    rep.evaluations += nops
    rep.count("ops_checked", nops)
    for sname in seen:
        rep.count("reach:" + sname)
    if {"full-reject", "refresh"} <= seen or {"expiry-with-survivors"} <= seen:
        rep.nontrivial((scn.sid, tuple(sorted(seen))))
    if len(rep.samples) < 2:
        rep.sample(dict(scenario=scn.sid, first_ops=[_fmt(o) for o in ops[:14]], reached=sorted(seen)))


def _fmt(o):
    return " ".join(x.hex() + ":%d" % 0 if isinstance(x, bytes) else (("%s/%d" % (x[0].hex(), x[1])) if isinstance(x, tuple) else str(x)) for x in o)


def _diff(a, b):
    out = []
    for s in sorted(set(a) | set(b)):
        if a.get(s) != b.get(s):
            out.append("slot %d: %s -> %s" % (s, a.get(s), b.get(s)))
    return "; ".join(out)[:400]


def run(ctx):
    rep = ctx.report
    rep.rule = ("random sequences of 200 table operations over 20-24 (mapper, generation) keys with clock advances of "
                "whole seconds, compared step by step with a dictionary model on return values and public fields; a "
                "sequence is non-trivial when it reached the full-table rejection and a refresh, or an expiry with survivors")
    rep.assumptions = ["70 % of the sequences advance the clock in whole seconds (exact expiry oracle); the rest in arbitrary milliseconds, where an entry idle "
                       "between 60 and 61 s may either survive or go (the table stores whole seconds)",
                       "completion changes go through the same find + flag + update_complete_status calls the daemon makes"]
    binary = H.build(ctx.work, "asan")
    scns = make_scenarios(ctx, ctx.n(2000, 60000), 200)
    run_monitored(ctx, binary, scns, monitor, tag="tbl")
    # the same sequences with plain char unsigned (the ABI of the ARM / PowerPC / Xtensa ports) and size-optimised
    uchar, osz = H.build_many(ctx.work, [dict(flavour="asan-uchar"), dict(flavour="plain-os")])
    run_monitored(ctx, uchar, scns[:len(scns) // 2], monitor, tag="tbl-uchar")
    run_monitored(ctx, osz, scns[len(scns) // 2:], monitor, tag="tbl-os")
    c = rep.counters
    for name in ("full-reject", "full-reject-while-all-complete", "refresh", "refresh-with-unchanged-sequence-number", "expiry-with-survivors", "clear", "remove", "allc=1/nonempty", "allc=0/nonempty", "allc=1/empty"):
        rep.need(name, c.get("reach:" + name, 0), 20)
    rep.need("ticks_beside_a_second_interface", c.get("ticks_beside_a_second_interface", 0), 1000)
