"""C14 - the mapping engine follows its state machine and times out."""
from . import sweeps


def run(ctx):
    rep = ctx.report
    rep.rule = ("exhaustive single steps: 3 states x inputs -128..255 x timer armed at clock reading {100000, 0, 1, 4294960, 4294967, 4294968, 2^40} s x elapsed {0,t-1,t,t+1,10t} and idle periods of 60 s, 1 h, 32767..32769 s, 65535..65537 s, 1 day, 1 week, 2^31-1, 2^31, 2^32-1..2^32+1, 2^32+40000 and 2^40 s; state and last "
                "timestamp set through the public struct; non-trivial = steps that change state (as the oracle expects)")
    sweeps.run_sweep(ctx, "c14", [], "C14")
    sweeps.run_sweep(ctx, "c14h", [], "C14")        # two-step histories
    sweeps.run_sweep(ctx, "c14", [], "C14", flavour="asan-uchar", sanitizer_is_violation=True)     # plain char unsigned (ARM-class ABIs)
    sweeps.run_sweep(ctx, "c14", [], "C14", flavour="msan", sanitizer_is_violation=True)      # decisions on uninitialised table cells
    rep.exhaustive = True
    rep.need("steps", rep.counters.get("sweep_c14_cases", 0), 150000)
    from . import c14_tick
    c14_tick.run(ctx)
