"""C09 - a Reset returns the responder to fresh-start behaviour."""
from .. import gen as G
from .. import harness as H
from .. import wire as W
from ..runner import run_monitored


def continuation(rng, net, mtu, n, query_first=False, resume=None):
    m = rng.randrange(len(net.mappers))
    must = [G.f_discover(rng, net, m=m, tos=0, gen=0), G.f_discover(rng, net, m=m, tos=0, gen=rng.choice([1, 0xFF00, 0x1234])),
            G.f_discover(rng, net, m=m, tos=1, gen=0), G.f_discover(rng, net, m=m, tos=1, gen=rng.choice([2, 0x00FF])),
            G.f_query(rng, net, m), G.f_qlt(rng, net, m, typ=0x0E, off=0), G.f_qlt(rng, net, m, typ=0x11, off=0),
            G.f_emit(rng, net, m, n=rng.randint(1, 3))[0], G.f_probe(rng, net, to_me=True), G.f_query(rng, net, m)]
    extra = G.session_history(rng, net, mtu, max(0, n - len(must)), p_mut=0.2, p_noise=0.05)
    body = must[:1] + extra + must[1:]
    # keep the first Discover first so that the rest of the must-list is usually in-session; shuffle the tail lightly
    tail = body[1:]
    for _ in range(len(tail) // 3):
        a, b = rng.randrange(len(tail)), rng.randrange(len(tail))
        tail[a], tail[b] = tail[b], tail[a]
    out = [body[0]] + tail
    r = rng.random()
    if r < 0.45:
        # the first session frame after the Reset is a command, not a Discover: Emit / Query / QueryLargeTlv first
        first = rng.choice([G.f_emit(rng, net, m, n=rng.randint(1, 3))[0], G.f_emit(rng, net, m, n=rng.randint(1, 2), seq=0)[0],
                            G.f_query(rng, net, m), G.f_query(rng, net, m, seq=0), G.f_qlt(rng, net, m, typ=0x0E, off=0),
                            G.f_qlt(rng, net, m, typ=0x11, off=0, tos=1), G.f_probe(rng, net, to_me=True),
                            G.f_emit(rng, net, m, n=1, bridged=True)[0]])
        out = [first] + out
        if rng.random() < 0.5:
            out = [rng.choice([G.f_emit(rng, net, (m + 1) % 3, n=2)[0], G.f_query(rng, net, (m + 1) % 3, bridged=True)])] + out
    if resume is not None:
        # the new session's mapper resumes a large-property transfer in the middle (it remembers where the last one stopped)
        out = [G.f_qlt(rng, net, m, typ=resume[0], off=resume[1])] + ([G.f_qlt(rng, net, m, typ=resume[0], off=0)] if rng.random() < 0.5 else []) + out
    if query_first:
        # the first thing the new session's mapper does is ask for observations, then for the icon
        out = [G.f_query(rng, net, m)] + ([G.f_qlt(rng, net, m, typ=0x0E, off=0)] if rng.random() < 0.5 else []) + out
    return out


def make_scenarios(ctx, count):
    scns = []
    for i in range(count):
        rng = G.rng_for(ctx.seed, "C09", i)
        cfg = G.rand_cfg(rng, mtu=rng.choice([576, 1500, 4096, rng.randint(576, 9216)]))
        mtu = cfg["mtu"]
        net = G.Net(rng, cfg["mac"])
        glob = G.rand_global(rng, icon_size=rng.choice([0, 1, 300, 2000, 9000]))
        hl = rng.choice([0, 1, 5, 30, 100, 400]) if rng.random() < 0.8 else rng.randint(0, 400)
        style = rng.choice(["session", "flood", "hijack", "noise", "icon"])
        if i % 12 == 5:
            style = "worn"
        if i % 12 == 7:
            style = "quick-only"
        resume = None
        worn = None
        quick_only = None
        if style == "icon":
            # a session in which the icon (and other large properties) were fetched; the platform's icon is replaced
            # afterwards, at the latest right before the Reset
            if rng.random() < 0.4:
                glob = dict(glob, icon_size=0, icon=None, _icon_cache=None)      # starts out without (or with an empty) icon
            m0 = rng.randrange(3)
            h = [G.f_discover(rng, net, m=m0, tos=rng.choice([0, 0, 1]))]
            for _ in range(rng.randint(1, 4)):
                h.append(G.f_qlt(rng, net, m0, typ=rng.choice([0x0E, 0x0E, 0x11, 0x13]), off=rng.choice([0, 0, 100])))
            h += G.session_history(rng, net, mtu, rng.randint(0, 10), p_mut=0.0)
            if rng.random() < 0.5:
                # a friendly name / hardware id longer than one response, its transfer left unfinished before the Reset
                P = mtu - 34
                glob["fname"] = W.fill_stream(rng.choice([P + 1, 2 * P + 7, 3 * P]), rng.randint(1, 10 ** 6))
                typ = 0x11
                offs = rng.choice([[0], [0, P], [0, P, 0], [P]])
                h += [G.f_qlt(rng, net, m0, typ=typ, off=o) for o in offs]
                resume = (typ, rng.choice([P, P, 2 * P, 1]))
        elif style == "worn":
            # an interface with a long life behind it: a few stations were observed once, then the same short exchange was
            # repeated N times (N around 2^8 and 2^16: what a generation or epoch counter in the state might hold), and the
            # stations observed at the very beginning show up again after the Reset
            m0 = rng.randrange(3)
            xs = [(G.rand_mac(rng), rng.choice(net.strangers)) for _ in range(rng.randint(1, 3))]
            h = [G.f_discover(rng, net, m=m0, tos=0)] + [W.probe(net.own, es, net.own, rs) for es, rs in xs]
            if rng.random() < 0.5:
                h.append(G.f_query(rng, net, m0))
            N = rng.choice([255, 256, 257, 65535, 65536, 65537, 2 * 65535, 131072]) - rng.choice([0, 1, 1, 2])
            unit = rng.choice(["reset", "reset", "quick-reset", "probe+query", "discover+reset"])
            y = (G.rand_mac(rng), rng.choice(net.strangers))
            units = {"reset": [W.reset(net.mappers[m0], tos=0)], "quick-reset": [W.reset(net.mappers[m0], tos=1)],
                     "probe+query": [W.probe(net.own, y[0], net.own, y[1]), G.f_query(rng, net, m0)],
                     "discover+reset": [G.f_discover(rng, net, m=m0, tos=0, gen=3), W.reset(net.mappers[m0], tos=0)]}
            worn = (N, units[unit], xs, m0, unit)
        elif style == "quick-only":
            # before the Reset the interface was only ever enumerated (quick-discovery service), nobody ran a topology session;
            # afterwards a mapper's first frame is a Query, an enumerator's quick discovery comes and goes, and another station
            # opens its session
            m0 = rng.randrange(3)
            h = [G.f_discover(rng, net, m=m0, tos=1)] if rng.random() < 0.8 else []
            for _ in range(rng.randint(1, 3)):
                h.append(G.f_qlt(rng, net, m0, typ=rng.choice([0x0E, 0x11, 0x13]), off=0, tos=1))
            if rng.random() < 0.3:
                h.append(G.f_probe(rng, net, to_me=True))
            if rng.random() < 0.3:
                h.append(G.f_reset(rng, net, m=m0, tos=1))
            quick_only = m0
        elif style == "flood":
            h = [G.f_discover(rng, net, m=0, tos=0)] + [G.f_probe(rng, net, to_me=True) for _ in range(hl)] + \
                [G.f_query(rng, net, 0)] * rng.randint(0, 1)
        elif style == "hijack":
            h = []
            for _ in range(hl):
                h.append(rng.choice([G.f_discover(rng, net), G.f_misc(rng, net, opcode=0, tos=rng.choice([2, 3])),
                                     G.f_query(rng, net, rng.randrange(3)), G.f_qlt(rng, net, rng.randrange(3), typ=0x0E),
                                     G.f_emit(rng, net, rng.randrange(3))[0], G.f_reset(rng, net, tos=1)]))
        elif style == "noise":
            h = [G.f_noise(rng, mtu) for _ in range(hl)]
        else:
            h = G.session_history(rng, net, mtu, hl, p_mut=0.2)
        c = continuation(rng, net, mtu, rng.randint(10, 60), query_first=(style == "icon" and rng.random() < 0.6) or rng.random() < 0.05,
                         resume=resume)
        if quick_only is not None:
            m1 = rng.choice([quick_only, (quick_only + 1) % 3])
            m2 = (m1 + rng.randint(1, 2)) % 3
            pre = [G.f_query(rng, net, m1), G.f_reset(rng, net, m=rng.randrange(3), tos=1), G.f_discover(rng, net, m=m2, tos=0),
                   G.f_emit(rng, net, m2, n=1)[0], G.f_query(rng, net, m2)]
            if rng.random() < 0.3:
                pre = pre[:1] + [G.f_qlt(rng, net, m1, typ=0x0E, off=0)] + pre[1:]
            c = pre + c
        if worn:
            # what was observed before the long history is observed again, and asked for
            c = [G.f_discover(rng, net, m=worn[3], tos=0)] + [W.probe(net.own, es, net.own, rs) for es, rs in worn[2]] + \
                [G.f_query(rng, net, worn[3])] + c
        s = H.Scenario("r%d" % i)
        kw = H.iface_kw(cfg)
        s.iface(0, **kw)
        kw2 = dict(kw)
        kw2["rxseed"] = cfg["rxseed"] + 1
        s.iface(1, **kw2)
        s.glob(**G.global_kw(glob))
        s.add("OPT sleep=1")
        if style == "icon" and rng.random() < 0.4:
            s.add("OPT emptyicon=1")       # an icon file that exists but is empty is handed out as a success with size 0
        switch_at = rng.randrange(len(h) + 1) if rng.random() < 0.5 else None
        if style == "icon":
            switch_at = len(h)                   # after everything was fetched
        for j, fr in enumerate(h + [None]):
            if fr is None and switch_at != j:
                break
            if switch_at == j:
                g2 = G.rand_global(rng, icon_size=rng.choice([0, 5, 700, 3000]))
                glob = dict(glob, icon_seed=g2["icon_seed"], icon_size=g2["icon_size"], fname=g2["fname"], _icon_cache=None, icon=g2.get("icon"))
                s.add("GSET icon=%s fname=%s" % (G.global_kw(glob)["icon"], glob["fname"].hex() or "-"))
            if fr is None:
                break
            s.frame(0, fr)
        if worn:
            s.add("OPT txhex=0")
            s.add("FR 0 %d %s" % (worn[0], " ".join(fr.hex() for fr in worn[1])))
            s.add("OPT txhex=1")
        rs = rng.choice([0, 0, 1, 0x4242, 0xFFFF, rng.getrandbits(16)])
        s.frame(0, W.reset(rng.choice(net.mappers), tos=0, seq=rs) if rng.random() < 0.7 else
                W.reset(rng.choice(net.mappers), tos=0, seq=rs, real_dst=net.own, eth_dst=net.own))
        # the same full-buffer frame of a foreign service on both: receive buffers are now byte-identical
        filler = (W.base(net.own, net.strangers[0], 5, 0x44, net.own, net.strangers[0], 9) + W.fill_stream(mtu, 99))[:mtu]
        s.add("MARK cP")
        s.frame(0, filler)
        for fr in c:
            s.frame(0, fr)
        s.add("MARK cQ")
        s.frame(1, filler)
        for fr in c:
            s.frame(1, fr)
        s.meta = dict(nc=len(c) + 1, nh=len(h) + (worn[0] if worn else 0), style=style, c=c, switched=switch_at is not None,
                      worn="%s x %d" % (worn[4], worn[0]) if worn else None)
        scns.append(s)
    return scns


def trace_of(inputs):
    out = []
    for inp in inputs:
        ev = tuple((e[0], e[2], e[3]) if e[0] == "T" else (e[0], e[1]) for e in inp.ev if e[0] in ("T", "Z", "t"))
        out.append((ev, inp.out[:4] if inp.out else None))
    return out


def monitor(scn, sobj, rep, sf, ck):
    marks = dict((lab, pos) for pos, lab in scn.marks)
    if "cP" not in marks or "cQ" not in marks or not scn.clean:
        rep.count("scenarios_incomplete")
        return
    nc = sobj.meta["nc"]
    p = scn.inputs[marks["cP"]:marks["cP"] + nc]
    q = scn.inputs[marks["cQ"]:marks["cQ"] + nc]
    tp, tq = trace_of(p), trace_of(q)
    rep.evaluations += nc
    rep.count("pairs")
    rep.count("style:" + sobj.meta["style"])
    if sobj.meta.get("worn"):
        rep.count("worn:" + ("2^16" if sobj.meta["nh"] > 60000 else "2^8"))
    if sobj.meta["switched"]:
        rep.count("icon_switched_during_history")
    sent = sum(len(x[0]) for x in tq)
    if tp != tq:
        j = next((k for k in range(min(len(tp), len(tq))) if tp[k] != tq[k]), min(len(tp), len(tq)))
        fr = ([None] + sobj.meta["c"])[j] if j <= len(sobj.meta["c"]) else None
        what = "opcode=%d tos=%d" % (fr[17], fr[15]) if fr and len(fr) >= 18 else "filler/short"
        opn = W.OPNAMES.get(fr[17], "other") if fr and len(fr) >= 18 else "short"
        pe = [e for e in tp[j][0] if e[0] == "T"] if j < len(tp) else []
        qe = [e for e in tq[j][0] if e[0] == "T"] if j < len(tq) else []
        detail = "after-reset %s | fresh %s" % ([x[2].hex()[:120] if x[2] else None for x in pe][:3],
                                                [x[2].hex()[:120] if x[2] else None for x in qe][:3])
        rep.violation("C09:trace-differs-after-reset:%s" % opn,
                      "scenario %s (history style %s, %d frames): continuation input %d (%s) reacts differently after "
                      "history+Reset than on a fresh interface: %s" % (scn.sid, sobj.meta["style"], sobj.meta["nh"], j, what, detail),
                      replay=sobj.text())
    elif sent >= 4 and sobj.meta["nh"] > 0:
        rep.nontrivial((scn.sid, sent))
    if len(rep.samples) < 2:
        rep.sample(dict(scenario=scn.sid, history_frames=sobj.meta["nh"], style=sobj.meta["style"],
                        continuation_frames=nc, frames_sent_in_continuation=sent))


def run(ctx):
    rep = ctx.report
    rep.rule = ("pairs (h . Reset . c on interface P, c on a never-used interface Q with identical configuration) in one "
                "process; h from session/flood/hijack/noise families (0..400 frames, icon and friendly name switched during h "
                "in half of the runs), c always contains Query, QueryLargeTlv(icon, friendly name), Emit and Discovers of "
                "both services with generation 0 and != 0; traces (frames, sleeps) for c must be identical; non-trivial = "
                "non-empty history and >= 4 port events in the continuation")
    rep.assumptions = ["both receive buffers are made byte-identical by one MTU-sized frame of a foreign service before c "
                       "(the buffer tail is port-owned memory, not responder state)", "only the topology-discovery Reset is claimed"]
    binary = H.build(ctx.work, "asan")
    scns = make_scenarios(ctx, ctx.n(1200, 30000))
    run_monitored(ctx, binary, scns, monitor, tag="reset")
    c = rep.counters
    rep.need("pairs", c.get("pairs", 0), ctx.n(1000, 25000))
    rep.need("worn:2^16 (an exchange repeated about 2^16 times before the Reset)", c.get("worn:2^16", 0), 20)
    rep.need("worn:2^8", c.get("worn:2^8", 0), 10)
    rep.need("style:quick-only", c.get("style:quick-only", 0), 50)
    rep.need("icon_switched_during_history", c.get("icon_switched_during_history", 0), 100)
    rep.need("style:icon (large properties fetched, icon replaced before the Reset)", c.get("style:icon", 0), 100)
