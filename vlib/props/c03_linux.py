"""C03, Linux layer: an accepted Discover is answered by exactly one Hello also when the frame leaves through the real
os/linux/lltd_port.c (interposed sendto), whatever value errno happens to hold from earlier, unrelated calls."""
import os
import subprocess

from .. import harness as H
from .. import wire as W
from . import c04_linux as L


def run(ctx):
    rep = ctx.report
    out = L.build(ctx)
    recs = L.records(ctx, ctx.n(2000, 50000))
    lines = [L.record_line(x) for x in recs]
    env = dict(os.environ)
    env.update(H.SAN_ENV)
    p = subprocess.run([out], input="\n".join(lines) + "\n", stdout=subprocess.PIPE, stderr=subprocess.PIPE, text=True, env=env, timeout=3600)
    if p.returncode != 0:
        rep.inconclusive.append("vh_linuxport exited %d: %s" % (p.returncode, p.stderr[-500:]))
    n = 0
    for ln in p.stdout.split("\n"):
        if not ln.startswith("REC "):
            continue
        parts = ln.split(" ")
        i = int(parts[1])
        kv = dict(x.split("=", 1) for x in parts[2:9])
        hello = bytes.fromhex(parts[10]) if len(parts) > 10 else b""
        n += 1
        rep.evaluations += 1
        if kv["sends"] != "1" or len(hello) < 47 or hello[17] != W.OP_HELLO:
            rep.violation("C03:linux:not-exactly-one-frame", "record %d (%s), stale errno class %d: a Discover through the Linux port was answered by %s "
                          "transmitted frame(s)" % (i, lines[i], i % 7, kv["sends"]), replay="# vh_linuxport record %d:\n# %s\n" % (i, lines[i]))
        else:
            rep.nontrivial(("linux-hello", i % 7, recs[i]["mtu"]))
    rep.count("linux_discovers_judged", n)
    rep.need("linux_discovers_judged", n, len(recs))
