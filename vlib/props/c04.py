"""C04 - Hello properties faithfully encode the interface's attributes."""
import struct

from .. import gen as G
from .. import harness as H
from .. import wire as W
from ..runner import run_monitored
from . import c04_linux

F_MTU, F_MAC, F_IFTYPE, F_IPV4, F_IPV6, F_SPEED, F_WIFIMODE, F_BSSID, F_SSID, F_RATE, F_RSSI, F_PHY = [1 << i for i in range(12)]
F_HOSTNAME = 1 << 12


def rand_tuple(rng, idx):
    t = G.rand_cfg(rng, mtu=1500)
    t["hostname"] = G.rand_name(rng) if idx % 41 else bytes(range(65, 65 + (idx // 41) % 41))
    if t["wifi"]:
        t["rssi"] = (idx % 256) - 128 if idx % 3 == 0 else t["rssi"]
    t["fail"] = 0
    t["gfail"] = 0
    if rng.random() < 0.25:
        for bit in range(12):
            if rng.random() < 0.15:
                t["fail"] |= 1 << bit
        if rng.random() < 0.2:
            t["gfail"] |= F_HOSTNAME
    t["fail"] &= ~F_MTU      # MTU failure changes nothing encodable; keep the buffer sizes consistent
    t["gconv"] = rng.randint(0, 1)
    return t


def make_systematic(ctx):
    """thorough tier: every 16-bit characteristics word and every 16-bit rate, every RSSI value, walking-bit 32-bit words"""
    scns = []
    words32 = sorted(set([0, 1, 0xFFFFFFFF, 0x80000000, 0x7FFFFFFF, 0x01020304, 0xFFFEFDFC] + [1 << b for b in range(32)] +
                         [(1 << b) - 1 for b in range(1, 33)] + [0xFFFFFFFF ^ (1 << b) for b in range(32)]))
    for chunk in range(0, 65536, 1024):
        rng = G.rng_for(ctx.seed, "C04sys", chunk)
        base = G.rand_cfg(rng, mtu=1500, wifi=True)
        mapper = G.rand_mac(rng)
        s = H.Scenario("sys%d" % chunk)
        s.iface(0, **H.iface_kw(base)).glob(**G.global_kw(G.rand_global(rng, icon_size=0)))
        s.add("OPT sleep=0")
        tuples = []
        for v in range(chunk, chunk + 1024):
            t = dict(base)
            t.update(flags=v, rate=(v * 40503) & 0xFFFF, rssi=(v % 256) - 128, iftype=words32[v % len(words32)],
                     speed=words32[(v // 7) % len(words32)], hostname=base.get("hostname", b"sys"), gfail=0, gconv=v & 1, fail=0)
            t["hostname"] = b"h%d" % v
            kw = H.iface_kw(t)
            kw.pop("mtu"), kw.pop("rxseed")
            s.add("SET 0 " + H.kvs(kw))
            s.add("GSET hostname=%s fail=0 conv=%d" % (t["hostname"].hex(), t["gconv"]))
            s.frame(0, W.discover(mapper, v, v ^ 0x5555, [], tos=v & 1))
            tuples.append(t)
        s.meta = dict(tuples=tuples)
        scns.append(s)
    return scns


def make_scenarios(ctx, count, per):
    scns = []
    idx = 0
    for i in range(count):
        rng = G.rng_for(ctx.seed, "C04", i)
        base = G.rand_cfg(rng, mtu=1500)
        mapper = G.rand_mac(rng)
        s = H.Scenario("t%d" % i)
        s.iface(0, **H.iface_kw(base)).glob(**G.global_kw(G.rand_global(rng, icon_size=0)))
        s.add("OPT sleep=0")
        # a getter reports failure with any non-zero value (the core's convention is 0 = success)
        failrc = rng.choice([-1, -1, 1, 2, -2, 255, 0x7fffffff, -0x80000000])
        s.add("OPT failrc=%d" % failrc)
        if i % 3 == 1:
            s.add("OPT sloppy=1")         # text getters that fill their whole window and report the string's length
        tuples = []
        worn = 0
        small_changes = 0
        repeated = 0
        last_disc = None
        for _ in range(per):
            t = rand_tuple(rng, idx)
            if tuples and tuples[-1] is not None and rng.random() < 0.3:
                # the platform's attributes change a little between two Hellos: one attribute, in one byte, in its last two
                # bytes, or by one bit - everything else stays as it was (an address renumbered, a lease renewed, a rate change)
                t = dict(tuples[-1])
                which = rng.choice(["ipv6", "ipv6", "ipv4", "mac", "bssid", "speed", "hostname"])
                v = t.get(which)
                if isinstance(v, (bytes, bytearray)) and len(v) >= 2:
                    b = bytearray(v)
                    how = rng.choice(["last-two", "last", "first", "one-bit", "middle"])
                    if how == "last-two":
                        b[-2] ^= rng.randint(1, 255); b[-1] ^= rng.randint(1, 255)
                    elif how == "last":
                        b[-1] ^= rng.randint(1, 255)
                    elif how == "first":
                        b[0] ^= (2 if which == "mac" else rng.randint(1, 255))
                    elif how == "one-bit":
                        b[rng.randrange(len(b))] ^= 1 << rng.randrange(8)
                    else:
                        b[len(b) // 2] ^= rng.randint(1, 255)
                    t[which] = bytes(b)
                elif which == "speed":
                    t["speed"] = max(0, t["speed"] + rng.choice([-100, 100, 1000, 1 << 24]))
                t["fail"] = 0
                t["gfail"] = 0
                small_changes += 1
            t["failrc"] = failrc
            idx += 1
            kw = H.iface_kw(t)
            kw.pop("mtu"), kw.pop("rxseed")
            if not t["wifi"]:
                pass
            s.add("SET 0 " + H.kvs(kw))
            s.add("GSET hostname=%s fail=%d conv=%d" % (t["hostname"].hex() or "-", t["gfail"], t["gconv"]))
            if i % 8 == 5 and tuples and rng.random() < 0.5:
                # the attributes have just changed; before the next Discover asks for them the interface sees a long run of
                # frames that need none of them (N around 2^8 and 2^16: what a frame counter or a cache tag might hold)
                N = rng.choice([254, 255, 256, 257, 65533, 65534, 65535, 65536, 65537])
                filler = rng.choice([W.simple(W.OP_CHARGE, base["mac"], mapper, 0), W.simple(W.OP_ACK, base["mac"], mapper, 5),
                                     W.reset(mapper, tos=rng.choice([0, 1])), W.simple(W.OP_FLAT, base["mac"], mapper, 0, tos=2)])
                s.add("FR 0 %d %s" % (N, filler.hex()))
                tuples.append(None)
                worn += 1
            if last_disc is not None and tuples[-1] is not None and rng.random() < 0.25:
                # the mapper repeats its Discover unchanged (same service, generation and sequence number - a retransmission)
                # right after the attributes changed: the Hello that answers it describes the interface as it is now
                disc = last_disc
                repeated += 1
            else:
                disc = W.discover(mapper, rng.getrandbits(16), rng.getrandbits(16), [], tos=rng.choice([0, 1]))
            last_disc = disc
            s.frame(0, disc)
            tuples.append(t)
        s.meta = dict(tuples=tuples, worn=worn, small_changes=small_changes, repeated=repeated)
        scns.append(s)
    return scns


def be32(v):
    return struct.pack(">I", v & 0xFFFFFFFF)


def monitor(scn, sobj, rep, sf, ck):
    tuples = sobj.meta["tuples"]
    rep.count("single_attribute_small_changes_between_hellos", sobj.meta.get("small_changes", 0))
    rep.count("discovers_repeated_unchanged_after_an_attribute_change", sobj.meta.get("repeated", 0))
    for idx, inp in enumerate(scn.inputs):
        if idx >= len(tuples) or inp.out is None:
            break
        t = tuples[idx]
        if t is None:
            rep.count("long_runs_of_frames_between_attribute_change_and_discover")
            continue
        sends = inp.sends()
        rep.evaluations += 1
        if len(sends) != 1 or not sends[0][3] or len(sends[0][3]) < 47 or sends[0][3][17] != W.OP_HELLO:
            rep.count("discover_without_single_hello")
            continue
        raw = sends[0][3]
        tlvs, end, err = W.parse_tlvs(raw[46:])
        if err:
            rep.violation("C04:hello-does-not-parse", "scenario %s tuple %d: %s: %s" % (scn.sid, idx, err, raw.hex()), replay=sobj.text())
            continue
        d = {}
        for ty, v in tlvs:
            d.setdefault(ty, v)
        fail = t["fail"]

        def bad(key, msg):
            rep.violation("C04:" + key, "scenario %s tuple %d (wifi=%d fail=%#x conv=%d): %s" % (scn.sid, idx, t["wifi"], fail, t["conv"], msg),
                          replay=sobj.text())

        def expect(ty, name, want, failbit=0, gfail=False):
            got = d.get(ty)
            if (fail & failbit) or gfail:
                # the platform supplied nothing: the property is left out or carries no value (zero bytes) - never
                # something the platform did not say
                rep.count("failed_getter_properties_judged")
                if t["failrc"] > 0:
                    rep.count("failed_getter_positive_code_judged")
                if got is not None and got.strip(b"\0"):
                    bad("value-although-getter-failed:" + name, "property %#x = %s although the platform's getter reported failure (code %d)"
                        % (ty, got.hex(), t["failrc"]))
                return
            if got is None:
                bad("missing:" + name, "property %#x absent" % ty)
            elif got != want:
                bad("value:" + name, "property %#x = %s, platform supplied %s" % (ty, got.hex(), want.hex()))
        expect(W.TLV_HOSTID, "hardware-address", t["mac"], F_MAC)
        expect(W.TLV_CHAR, "characteristics", be32((t["flags"] & 0xFFFF) << 16))
        expect(W.TLV_IFTYPE, "interface-type", be32(t["iftype"]), F_IFTYPE)
        expect(W.TLV_IPV4, "ipv4", t["ipv4"], F_IPV4)
        expect(W.TLV_IPV6, "ipv6", t["ipv6"], F_IPV6)
        expect(W.TLV_LINKSPEED, "link-speed", be32(t["speed"]), F_SPEED)
        expect(W.TLV_HOSTNAME, "machine-name", t["hostname"][:32], 0, bool(t["gfail"] & F_HOSTNAME))
        expect(W.TLV_PERF, "perf-counter-frequency", struct.pack(">Q", 1000000))
        expect(W.TLV_QOS, "qos-characteristics", be32(0xE0000000))
        wireless = t["wifi"] and not (fail & F_WIFIMODE)
        if wireless:
            expect(W.TLV_WIFIMODE, "wifi-mode", bytes([t["mode"]]))
            expect(W.TLV_BSSID, "bssid", t["bssid"], F_BSSID)
            expect(W.TLV_SSID, "ssid", t["ssid"][:32], F_SSID)
            expect(W.TLV_MAXRATE, "wifi-max-rate", struct.pack(">H", t["rate"]), F_RATE)
            expect(W.TLV_RSSI, "wifi-rssi", struct.pack(">i", t["rssi"]), F_RSSI)
            rep.count("wireless_tuples")
            if t["rssi"] < 0:
                rep.count("negative_rssi")
        else:
            for ty in (W.TLV_WIFIMODE, W.TLV_BSSID, W.TLV_SSID, W.TLV_MAXRATE, W.TLV_RSSI):
                if ty in d:
                    bad("wireless-property-on-wired-interface", "property %#x present although the interface is not wireless" % ty)
        if len(t["hostname"]) > 32:
            rep.count("hostname_longer_than_32")
        if fail:
            rep.count("tuples_with_failing_getters")
        rep.count("conv:%d" % t["gconv"])
        rep.nontrivial((t["mac"], t["flags"], t["iftype"], t["ipv4"], t["speed"], t["hostname"], t["wifi"], fail))
    if len(rep.samples) < 2 and tuples:
        t = tuples[0]
        rep.sample({k: (v.hex() if isinstance(v, bytes) else v) for k, v in t.items()})


def run(ctx):
    rep = ctx.report
    rep.rule = ("attribute tuples dense on byte boundaries (00/01/7F/80/FF bytes, 01 02 03 04 words, names of length 0..40, all "
                "RSSI values, wireless on/off, getters failing independently), one Discover per tuple (a quarter of them the previous Discover repeated unchanged - same service, generation, sequence number - right after the attributes changed), every decoded Hello "
                "property compared with what the port supplied; plus the Linux layer: the real os/linux/lltd_port.c linked "
                "with the core, Hello compared with the network_interface_t record; distinct by attribute tuple")
    rep.assumptions = ["a property whose getter reports failure (any non-zero code) must be absent or all zero bytes",
                       "Linux speed conversion: rounding accepted in either direction (|LinkSpeed - 100*speed| < 100)"]
    binary = H.build(ctx.work, "asan")
    scns = make_scenarios(ctx, ctx.n(400, 12500), ctx.n(50, 80))
    if not ctx.quick:
        scns += make_systematic(ctx)
    run_monitored(ctx, binary, scns, monitor, tag="attr")
    c = rep.counters
    rep.need("wireless_tuples", c.get("wireless_tuples", 0), 2000)
    rep.need("negative_rssi", c.get("negative_rssi", 0), 500)
    rep.need("hostname_longer_than_32", c.get("hostname_longer_than_32", 0), 500)
    rep.need("tuples_with_failing_getters", c.get("tuples_with_failing_getters", 0), 500)
    rep.need("failed_getter_positive_code_judged", c.get("failed_getter_positive_code_judged", 0), 300)
    rep.need("both name conventions", min(c.get("conv:0", 0), c.get("conv:1", 0)), 1000)
    rep.need("discovers_repeated_unchanged_after_an_attribute_change", c.get("discovers_repeated_unchanged_after_an_attribute_change", 0), 500)
    rep.need("single_attribute_small_changes_between_hellos", c.get("single_attribute_small_changes_between_hellos", 0), 1000)
    rep.need("long_runs_of_frames_between_attribute_change_and_discover", c.get("long_runs_of_frames_between_attribute_change_and_discover", 0), 50)
    c04_linux.run(ctx)
