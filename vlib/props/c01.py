"""C01 - frame reception is memory-safe and free of undefined behaviour."""
import os
import re
import struct
import subprocess

from .. import gen as G
from .. import harness as H
from .. import wire as W
from ..runner import run_monitored

FAMILIES = ["counters", "tos-opcode", "session", "mutated", "noise", "flow", "dse-inflated", "esp32", "capacity", "stress"]
MUST_REACH = ["parseEmit", "parseQuery", "parseProbe", "parseQueryLargeTlv", "answerHello", "sendProbeMsg",
              "sendLargeTlvResponse", "derive_session_event", "automata_tick", "switch_state_mapping",
              "switch_state_session", "session_table_add", "band_update_stats", "lltd_esp32_handle_frame"]


def counter_frames(rng, net, mtu):
    """every request type, each wire counter at {0, 1, fits, fits+1, 0xFFFF}, full and truncated bodies"""
    out = []
    m = rng.randrange(len(net.mappers))
    out.append(G.f_discover(rng, net, m=m, tos=0))
    fits_e, fits_s = G.cap_emit(mtu), min(G.cap_stations(mtu), 0xFFF0)
    for cnt in (0, 1, fits_e, fits_e + 1, 0xFFFF, rng.randint(0, 0xFFFF)):
        carried = min(fits_e, cnt) if rng.random() < 0.7 else rng.randint(0, fits_e)
        fr, _ = G.f_emit(rng, net, m, n=carried) if carried else (W.emit(net.own, net.mappers[m], 5, []), None)
        b = bytearray(fr)
        struct.pack_into(">H", b, 32, cnt)
        out.append(bytes(b)[:mtu])
    # one more than fits, carried by a full-MTU frame whose last (overhanging) record looks valid: the
    # record that straddles the end of the buffer is then really interpreted, not skipped as junk
    full, _ = G.f_emit(rng, net, m, n=fits_e, kinds=(0, 1))
    tail = bytes([rng.randint(0, 1), 0]) + rng.choice(net.strangers) + net.own
    b = bytearray((full + tail * 2)[:max(mtu, 34)])
    struct.pack_into(">H", b, 32, fits_e + 1)
    out.append(bytes(b)[:mtu])
    b2 = bytearray(b)
    struct.pack_into(">H", b2, 32, fits_e + 2)
    out.append(bytes(b2)[:mtu])
    for cnt in (0, 1, fits_s, fits_s + 1, 0xFFFF):
        carried = min(fits_s, cnt) if rng.random() < 0.7 else rng.randint(0, fits_s)
        sts = [rng.choice(net.strangers + [net.own]) for _ in range(carried)]
        out.append(W.discover(net.mappers[m], 7, rng.getrandbits(16), sts, count=cnt)[:mtu])
    for off in (0, 1, 0x7FFF, 0x8000, 0xFFFF):
        for typ in (0x0E, 0x11, 0x13, 0xFF):
            out.append(W.qlt(net.own, net.mappers[m], rng.randint(0, 3), typ, off, tos=rng.choice([0, 1])))
    for _ in range(4):
        out.append(G.f_probe(rng, net))
    out.append(G.f_query(rng, net, m))
    rng.shuffle(out)
    return out


def make_scenarios(ctx, count):
    scns = []
    for i in range(count):
        rng = G.rng_for(ctx.seed, "C01", i)
        fam = FAMILIES[i % len(FAMILIES)]
        cfg = G.rand_cfg(rng)
        if i % 23 == 7 and fam != "esp32":
            # an interface with a very small MTU (legal: 68 is the minimum Linux accepts on Ethernet); responses that cannot
            # fit must not be built in an MTU-sized buffer
            cfg["mtu"] = rng.choice(G.MTUS_TINY)
        mtu = cfg["mtu"]
        glob = G.rand_global(rng)
        net = G.Net(rng, cfg["mac"])
        infl = fam == "dse-inflated"
        if fam == "counters":
            frames = counter_frames(rng, net, mtu)
        elif fam == "capacity":
            # observation record beyond one QueryResp, partial drains with new probes arriving in between, full-size Emits
            m = rng.randrange(len(net.mappers))
            cap = G.cap_qresp(mtu)
            frames = [G.f_discover(rng, net, m=m, tos=0)]
            srcs = G.distinct_macs(rng, 3 * cap + 40, avoid=[net.own])
            k = 0
            for rnd in range(3):
                for _ in range(rng.choice([cap - 1, cap + 1, cap + 7, 2 * cap + 3])):
                    if k < len(srcs):
                        frames.append(W.probe(net.own, srcs[k], net.own, rng.choice(net.strangers), train=rng.random() < 0.5))
                        k += 1
                frames.append(G.f_query(rng, net, m))
                if rng.random() < 0.5:
                    frames.append(G.f_query(rng, net, m))
            frames.append(G.f_emit(rng, net, m, n=max(1, G.cap_emit(mtu)))[0])
            frames.append(G.f_reset(rng, net, m=m))
            frames = frames[:700]
        elif fam == "tos-opcode":
            frames = []
            for _ in range(60):
                tos = rng.choice([0, 1, 2, 3]) if rng.random() < 0.8 else rng.randint(0, 255)
                frames.append(G.f_misc(rng, net, opcode=rng.randint(0, 255) if rng.random() < 0.5 else rng.randint(0, 14), tos=tos)[:mtu])
        elif fam == "noise":
            frames = [G.f_noise(rng, mtu) for _ in range(rng.randint(20, 60))]
        elif fam == "stress":
            # an unfriendly platform around ordinary and mutated traffic: allocations and transmits that fail now and then,
            # an MTU that grows and shrinks while the interface lives on (the scenario lines are added below)
            frames = G.session_history(rng, net, mtu, rng.randint(40, 90), p_mut=0.15, inflate_discover=False, max_emit=3)
        elif fam in ("session",):
            frames = G.session_history(rng, net, mtu, rng.randint(20, 60), p_mut=0.1, inflate_discover=False)
        else:
            frames = G.session_history(rng, net, mtu, rng.randint(20, 60), p_mut=0.5, p_noise=0.1, inflate_discover=infl)
        s = H.Scenario("%s%d" % (fam[:2], i), meta=dict(fam=fam))
        s.iface(0, **H.iface_kw(cfg)).glob(**G.global_kw(glob))
        s.add("OPT sleep=0 txhex=0")
        s.add("FILL %d" % rng.choice([165, 90, 0, 255]))
        s.add("NOW %d" % rng.choice([1, 999, 10 ** 6, 2 ** 40]))
        oplist = []
        if rng.random() < 0.5 and fam != "stress":
            s.add("AI 0")
            oplist.append(("AI", None))
        nops = 0
        for fr in frames:
            r = rng.random()
            if fam == "esp32":
                # the length-checked entry point gets exactly len bytes, any length 0..MTU
                if rng.random() < 0.3:
                    fr = fr[:rng.choice([0, 1, 17, 18, 31, 32, 33, 35, 36])]
                opn = "X" if r < 0.8 else "F"
                s.frame(0, fr, op=opn)
            elif fam == "dse-inflated":
                opn = "E" if r < 0.5 else "W"
                s.frame(0, fr, op=opn)
            elif fam == "flow":
                opn = "W" if r < 0.8 else "LX"
                s.frame(0, fr, op=opn)
            elif fam == "stress":
                opn = "F"               # the frame handler only: a daemon whose automata constructors failed does not go on
                s.frame(0, fr, op=opn)
            else:
                opn = "F" if r < 0.7 else ("LX" if r < 0.8 else ("E" if r < 0.9 and fam != "counters" else "F"))
                s.frame(0, fr, op=opn)
            oplist.append((opn, fr))
            nops += 1
            if fam == "stress":
                r2 = rng.random()
                if r2 < 0.08:
                    s.add("MTU 0 %d %d" % (rng.choice([576, 1500, 9000, 4096, 300, rng.randint(576, 9216)]), cfg["rxseed"]))
                elif r2 < 0.2:
                    s.add("FAULT malloc %d %d" % (rng.randint(1, 4), rng.choice([0, 0, 2, 3])))
                elif r2 < 0.25:
                    s.add("FAULT send %d 0" % rng.randint(1, 3))
                elif r2 < 0.35:
                    s.add("CLEAR")
            if rng.random() < 0.2:
                s.add("ADV %d" % rng.choice([0, 1, 100, 999, 1000, 5000, 31000, 61000, 2 ** 33]))
            if rng.random() < 0.2 and fam != "stress":
                s.add("K 0")
                oplist.append(("K", None))
                nops += 1
        s.meta["nops"] = nops
        s.meta["ops"] = oplist
        s.meta["mtu"] = mtu
        s.meta["rxseed"] = cfg["rxseed"]
        scns.append(s)
    return scns


def make_churn_scenarios(ctx, count):
    """the observation record steered to particular fill levels and poked there (G.obs_churn): a container that grows, shrinks,
    wraps or re-uses slots has its dangling pointers and one-past-the-end slots at those levels"""
    scns = []
    for i in range(count):
        rng = G.rng_for(ctx.seed, "C01churn", i)
        cfg = G.rand_cfg(rng, mtu=rng.choice([576, 1500, 1500, 9000]))
        net = G.Net(rng, cfg["mac"])
        m = rng.randrange(len(net.mappers))
        frames, mtu_changes, st = G.obs_churn(rng, net, m, cfg["mtu"], mode=["small", "boundaries", "small", "sawtooth", "flood"][i % 5],
                                             budget=ctx.n(1500, 3000), discover_every=0.1)
        s = H.Scenario("ch%d" % i, meta=dict(fam="churn"))
        s.iface(0, **H.iface_kw(cfg)).glob(**G.global_kw(G.rand_global(rng)))
        s.add("OPT sleep=0 txhex=0")
        s.add("FILL %d" % rng.choice([165, 90, 0, 255]))
        oplist = []
        for k, fr in enumerate(frames):
            if k in mtu_changes:
                s.add("MTU 0 %d %d" % (mtu_changes[k], cfg["rxseed"]))
            s.frame(0, fr, op="F")
            oplist.append(("F", fr))
        s.meta.update(nops=len(frames), ops=oplist, mtu=cfg["mtu"], rxseed=cfg["rxseed"])
        scns.append(s)
    return scns


STATION_WALK_KEY = "C01:station-list-walk-exceeds-buffer:derive_session_event"


def last_input_overlong_station_list(scn, sobj):
    """True when the input being handled when the child died was a Discover (as the core sees the receive
    buffer) whose station count exceeds what the MTU-sized buffer holds, handed to the session-event classifier"""
    ops = sobj.meta.get("ops")
    if not ops or not scn.inputs:
        return False
    from ..model import RxBuf
    mtu = sobj.meta["mtu"]
    rx = RxBuf(mtu, sobj.meta["rxseed"])
    k = len(scn.inputs) - 1
    if k >= len(ops):
        return False
    for op, fr in ops[:k + 1]:
        if fr is not None and op != "X":
            rx.load(fr)
    op, fr = ops[k]
    if op not in ("E", "W"):
        return False
    cnt = struct.unpack(">H", bytes(rx.buf[34:36]))[0]
    return rx.buf[17] == 0 and cnt > G.cap_stations(mtu)


def refine_key(key, scn, sobj):
    """the recorded finding is identified by call site and input class, whatever tool saw it"""
    if "derive_session_event" in key and last_input_overlong_station_list(scn, sobj):
        return STATION_WALK_KEY
    return key


def monitor(scn, sobj, rep, sf, ck):
    fam = sobj.meta["fam"]
    rep.count("family:" + fam)
    done = sum(1 for i in scn.inputs if i.out is not None)
    rep.count("inputs_executed", done)
    rep.evaluations += done
    for key, txt in sf:
        last = scn.inputs[-1] if scn.inputs else None
        key = refine_key(key, scn, sobj)
        rep.violation(key, "scenario %s (%s) input %s op %s:\n%s" % (scn.sid, fam, last.n if last else "?", last.op if last else "?", txt),
                      replay=sobj.text())
    if ck and not sf:
        rep.violation("crash:" + ck, "scenario %s (%s) died without a sanitizer report: status=%s code=%s after %d inputs, cpu %d ms\n%s"
                      % (scn.sid, fam, scn.status, scn.code, done, scn.cpu_ms, scn.stderr[-600:]), replay=sobj.text())
    elif not scn.clean and not sf:
        rep.violation("crash:exit-%s" % scn.code, "scenario %s exited with %s: %s" % (scn.sid, scn.code, scn.stderr[-600:]), replay=sobj.text())
    if scn.clean and done >= 10:
        rep.nontrivial((scn.sid, done))
    if len(rep.samples) < 3 and sobj.lines:
        rep.sample(dict(scenario=scn.sid, family=fam, first_ops=[ln[:100] for ln in sobj.lines[:8]]))


# ---------------------------------------------------------------- coverage (evidence + reach obligations)

def coverage_run(ctx, scns):
    rep = ctx.report
    binary = H.build(ctx.work, "cov")
    objdir = os.path.join(ctx.work.path, "bin")     # gcc puts <output>-<source>.gcno/.gcda next to the output file

    def nomon(scn, sobj, r, sf, ck):
        r.count("cov_scenarios")
    saved = rep.evaluations
    run_monitored(ctx, binary, scns, nomon, tag="cov")
    rep.evaluations = saved
    gcnos = [f for f in os.listdir(objdir) if f.endswith(".gcno") and f.startswith("vh_frames-cov-")]
    p = subprocess.run(["gcov", "-f"] + gcnos, cwd=objdir, stdout=subprocess.PIPE, stderr=subprocess.DEVNULL, text=True)
    funcs = {}
    files = {}
    cur = None
    for ln in p.stdout.split("\n"):
        m = re.match(r"Function '(.+)'", ln)
        if m:
            cur = ("f", m.group(1))
            continue
        m = re.match(r"File '(.+)'", ln)
        if m:
            cur = ("F", m.group(1))
            continue
        m = re.match(r"Lines executed:([0-9.]+)% of (\d+)", ln)
        if m and cur:
            if cur[0] == "f":
                funcs[cur[1]] = float(m.group(1))
            elif "lltdResponder/" in cur[1] or "lltd_esp32.c" in cur[1]:
                files[os.path.basename(cur[1])] = dict(lines=int(m.group(2)), executed_pct=float(m.group(1)))
            cur = None
    rep.extra["core_line_coverage"] = files
    rep.extra["functions_reached"] = {f: funcs[f] for f in MUST_REACH if f in funcs}
    rep.extra["core_functions_executed"] = sum(1 for v in funcs.values() if v > 0)
    # reach obligation on line coverage per core file (function names may change under refactoring; the files are the anchor)
    # (a refactoring may leave part of a helper file unused - negative control B23 routes the Hello past most of lltdTlvOps.c -
    # so the helper files have low per-file thresholds and the core as a whole carries the obligation)
    for fn, need in (("lltdBlock.c", 70), ("lltdAutomata.c", 70), ("lltdTlvOps.c", 30), ("lltdWire.c", 30), ("lltd_esp32.c", 40)):
        got = files.get(fn, {}).get("executed_pct", 0.0)
        rep.need("line-coverage:%s>=%d%%" % (fn, need), int(got), need)
    tot = sum(v["lines"] for k, v in files.items() if k.endswith(".c"))
    hit = sum(v["lines"] * v["executed_pct"] / 100.0 for k, v in files.items() if k.endswith(".c"))
    rep.extra["core_line_coverage_total_pct"] = round(100.0 * hit / tot, 1) if tot else 0.0
    rep.need("line-coverage:core>=70%", int(100.0 * hit / tot) if tot else 0, 70)


def run(ctx):
    rep = ctx.report
    rep.rule = ("scenarios of 20-60 operations over MTU in {576..9216} and wired/Wi-Fi attribute sets, in eight families (wire "
                "counters at 0/1/fits/fits+1/0xFFFF, ToS x opcode grid, valid sessions, heavily mutated sessions, noise of every "
                "length, daemon flow with ticks and clock jumps, inflated station lists through the session-event classifier, the "
                "length-checked esp32 entry with exact-size allocations), each in its own process under ASan+UBSan; any "
                "sanitizer report, signal or hang is a violation; a scenario is non-trivial when >= 10 inputs were executed to "
                "the end without a report")
    rep.assumptions = ["reads past the received length but inside the MTU-sized buffer are allowed by the statement; the buffer "
                       "tail is defined memory", "a clean sanitizer run is not memory safety: intra-object overflows and accesses "
                       "landing in another live allocation are invisible to red zones"]
    n = ctx.n(4000, 64000)
    scns = make_scenarios(ctx, n)
    churn = make_churn_scenarios(ctx, ctx.n(60, 1200))
    scns = churn + scns
    asan = H.build(ctx.work, "asan")
    run_monitored(ctx, asan, scns, monitor, tag="asan", cpu_limit=30)
    coverage_run(ctx, churn[:40] + scns[len(churn):len(churn) + 760])     # a sample of every family (the thorough tier has more churn scenarios than that)
    from . import c01_deep
    if not ctx.quick:
        c01_deep.run(ctx, scns, monitor)
    else:
        c01_deep.msan_pass(ctx, churn + scns[len(churn):len(churn) + 940])
        # a short coverage-guided stage on every change as well
        c01_deep.run_fuzz(ctx, [s for s in scns if s.meta["fam"] != "dse-inflated"], int(os.environ.get("VERIF_FUZZ_RUNS", "12000")))
    rep.need("inputs_executed", rep.counters.get("inputs_executed", 0), ctx.n(100000, 1500000))
    for fam in FAMILIES:
        rep.need("family:" + fam, rep.counters.get("family:" + fam, 0), 100)
    rep.need("family:churn", rep.counters.get("family:churn", 0), 50)
