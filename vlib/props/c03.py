"""C03 - an accepted Discover is answered by exactly one correct Hello."""
import struct

from .. import gen as G
from .. import harness as H
from .. import wire as W
from ..model import MapperModel
from ..runner import run_monitored
from . import c05

TOS_POOL = [0, 0, 0, 1, 1, 1, 2]


def make_scenarios(ctx, count, flen):
    scns = []
    for i in range(count):
        rng = G.rng_for(ctx.seed, "C03", i)
        cfg = G.rand_cfg(rng, mtu=rng.choice([576, 1500, 9216, rng.randint(576, 9216), rng.choice(G.MTUS_HUGE)]))
        glob = G.rand_global(rng, icon_size=rng.choice([0, 300]))
        net = G.Net(rng, cfg["mac"], nmappers=rng.randint(3, 4), nstrangers=3)
        if i % 4 == 3:
            # ordinary multi-mapper session traffic (Emits with pauses, probe floods, large-TLV transfers, Resets of both
            # services) instead of the purpose-built mix
            frames = G.session_history(rng, net, cfg["mtu"], flen, p_mut=0.0, p_noise=0.0, p_misc=0.1, max_emit=2)
        else:
            frames = c05.history(rng, net, flen, tos_pool=TOS_POOL, p_rand_tos=0.03)
        s = H.Scenario("h%d" % i, meta=dict(frames=frames, own=cfg["mac"], mtu=cfg["mtu"], rxseed=cfg["rxseed"]))
        s.iface(0, **H.iface_kw(cfg)).glob(**G.global_kw(glob))
        s.add("OPT sleep=0")
        shadow = None
        if i % 4 == 1:
            cfg1, fr1 = G.shadow_iface(rng, cfg, max(5, len(frames) // 2))
            s.iface(1, **H.iface_kw(cfg1))
            shadow = (1, fr1)
        s.frames(0, frames, rng if i % 2 else None, p_gap=0.25, base=True, shadow=shadow)
        scns.append(s)
    return scns


def monitor(scn, sobj, rep, sf, ck):
    frames = sobj.meta["frames"]
    from ..model import RxBuf
    rx = RxBuf(sobj.meta["mtu"], sobj.meta["rxseed"])
    own = sobj.meta["own"]
    mm = MapperModel()
    judged = 0
    classes = set()
    last_gen = {0: None, 1: None}
    for idx, inp in enumerate(scn.inputs):
        if idx >= len(frames):
            break
        fr = bytes(rx.load(frames[idx]))[:max(36, len(frames[idx]))]      # the frame as the core sees it in its receive buffer
        exp = mm.step(fr)
        if inp.out is None:
            break
        tos, op = fr[15], fr[17]
        if op == W.OP_DISCOVER and tos in (0, 1):
            dgen = struct.unpack(">H", fr[32:34])[0]
        if exp != "hello":
            if op == W.OP_DISCOVER and tos in (0, 1):
                last_gen[tos] = dgen
            continue
        judged += 1
        bridged = fr[6:12] != fr[24:30]
        cls = ("tos%d" % tos, "bridged" if bridged else "direct", "gen0" if dgen == 0 else "gen",
               "gen-changed" if last_gen[tos] not in (None, dgen) else "gen-first-or-same",
               "other-service-seen" if last_gen[1 - tos] is not None else "only-this-service",
               "delivered-as-unicast" if fr[0:6] != W.BCAST else "delivered-as-broadcast")
        classes.add(cls)
        last_gen[tos] = dgen
        sends = inp.sends()
        bad = []
        if len(sends) != 1 or inp.out[0] != 1:
            bad.append("send-count=%d" % inp.out[0])
        for e in sends[:1]:
            raw = e[3]
            f = W.decode(raw) if raw else None
            if f is None or f.opcode != W.OP_HELLO or len(raw) < 46:
                bad.append("not-a-hello")
                continue
            if f.eth_dst != W.BCAST:
                bad.append("ethernet-destination-not-broadcast")
            if f.real_dst != W.BCAST:
                bad.append("real-destination-not-broadcast")
            if f.eth_src != own:
                bad.append("ethernet-source-not-own")
            if f.real_src != own:
                bad.append("real-source-not-own")
            if f.tos != tos:
                bad.append("service-type-differs")
            if f.seq != 0:
                bad.append("sequence-number-not-zero")
            g, cur, app = W.hello_fields(raw)
            if cur != fr[24:30]:
                bad.append("current-mapper-not-real-source")
            if app != fr[6:12]:
                bad.append("apparent-mapper-not-ethernet-source")
            if g != dgen:
                bad.append("generation-not-this-discovers")
        for b in bad:
            key = "C03:%s" % b if not b.startswith("send-count") else "C03:not-exactly-one-frame"
            rep.violation(key, "scenario %s input %d: Discover tos=%d gen=%#06x xid=%#06x real-src=%s eth-src=%s accepted; %s; reply=%s"
                          % (scn.sid, idx + 1, tos, dgen, struct.unpack('>H', fr[30:32])[0], fr[24:30].hex(), fr[6:12].hex(),
                             b, sends[0][3].hex()[:140] if sends and sends[0][3] else None), replay=sobj.text())
    rep.count("accepted_discovers_judged", judged)
    rep.evaluations += judged
    for c in classes:
        rep.count("class:" + "/".join(c))
        rep.nontrivial((scn.sid, c))
    if judged and len(rep.samples) < 2:
        rep.sample(dict(scenario=scn.sid, judged=judged, classes=sorted("/".join(c) for c in classes)))


def run(ctx):
    rep = ctx.report
    rep.rule = ("random histories (both services interleaved, generations in {0,1,0xFF,0xFF00,0xFFFF,random}, bridged and "
                "direct mappers, Hellos heard, Resets); every Discover the C05 reference model marks accepted is judged; "
                "distinct_nontrivial counts distinct (scenario, class) pairs where class = (service, bridged?, generation "
                "zero?, generation changed since the previous Discover of this service?, other service seen before?, Discover "
                "delivered to the broadcast address or as unicast to this station?)")
    rep.assumptions = ["acceptance is taken from the C05 reference model; model state 'unknown' yields no expectation"]
    binary = H.build(ctx.work, "asan")
    scns = make_scenarios(ctx, ctx.n(1500, 30000), 50)
    run_monitored(ctx, binary, scns, monitor, tag="hist")
    # the same histories on size-optimised builds of both compilers and with plain char unsigned: behaviour must not depend
    # on the optimisation level, the compiler or the ABI's choice for char
    os_gcc, os_clang, uchar = H.build_many(ctx.work, [dict(flavour="plain-os"), dict(flavour="plain-clang-os"), dict(flavour="asan-uchar")])
    third = max(1, len(scns) // 3)
    run_monitored(ctx, os_gcc, scns[:third], monitor, tag="hist-os")
    run_monitored(ctx, os_clang, scns[third:2 * third], monitor, tag="hist-clang-os")
    run_monitored(ctx, uchar, scns[2 * third:], monitor, tag="hist-uchar")
    from . import c03_linux
    c03_linux.run(ctx)
    rep.rule += "; plus Discovers through the real Linux port (interposed sendto) with errno left at arbitrary values by earlier calls"
    c = rep.counters
    rep.need("accepted_discovers_judged", c.get("accepted_discovers_judged", 0), 2000)
    seen = lambda sub: sum(v for k, v in c.items() if k.startswith("class:") and all(x in k for x in sub))  # noqa
    rep.need("bridged", seen(["bridged"]), 100)
    rep.need("generation-zero", seen(["gen0"]), 50)
    rep.need("generation-changed", seen(["gen-changed"]), 100)
    rep.need("quick-after-topology-seen", seen(["tos1", "other-service-seen"]), 50)
    rep.need("discover-delivered-as-unicast", seen(["delivered-as-unicast"]), 50)
    rep.need("clock_gaps_between_frames", rep.counters.get("clock_gaps_between_frames", 0), 200)
    rep.need("inputs_of_a_second_interface_in_between", rep.counters.get("inputs_of_a_second_interface_in_between", 0), 500)
