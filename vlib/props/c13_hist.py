"""C13, history part: the RepeatBand count as it comes out of real block ends.

The value sweeps call band_update_stats / band_choose_hello_time with r set by hand.  Here r is *produced*: Hello frames
of other stations arrive through the documented daemon flow, the periodic tick sends our own Hellos and ends the 300 ms
blocks, and the monitor keeps its own count of the Hellos heard in the running block.  At every block end the count that
the responder computed must be the formula applied to the monitor's count - a responder that forgets Hellos heard earlier
in the block (or counts some twice) computes a different one.
"""
from .. import gen as G
from .. import harness as H
from .. import wire as W
from ..runner import run_monitored

ALPHA, NMAX = 45, 10000


def make_scenarios(ctx, count):
    scns = []
    for i in range(count):
        rng = G.rng_for(ctx.seed, "C13h", i)
        cfg = G.rand_cfg(rng, mtu=1500)
        net = G.Net(rng, cfg["mac"])
        s = H.Scenario("b%d" % i)
        s.iface(0, **H.iface_kw(cfg)).glob(**G.global_kw(G.rand_global(rng, icon_size=0)))
        s.add("OPT sleep=0 txhex=0")
        if i % 3 == 2:
            # sending the Hello takes time (a blocking raw-socket write), the clock moves with every read
            s.add("OPT hellocost=%d clocktick=%d txcost=%d" % (rng.choice([1, 7, 40, 400]), rng.choice([0, 1]), rng.choice([0, 3])))
        now0 = rng.choice([1, 1000, 123456, (1 << 32) - 20000, 1 << 40])
        s.add("NOW %d" % now0)
        ops = []
        m = 0
        idle_hellos = [0]
        timed = i % 3 != 2              # no time passes inside port calls: the monitor can follow the clock itself
        crowd = 0
        if i % 4 == 1:
            # a crowded segment: eight to twelve other mappers (or one mapper under as many generations) have sessions with this
            # station, all of them complete, before the mapper of this history starts enumerating - its session lies far back
            # in the table
            crowd = rng.randint(8, 12)
            others = G.distinct_macs(rng, crowd, avoid=[cfg["mac"]] + net.mappers)
            for k in range(crowd):
                src = others[k] if rng.random() < 0.8 else others[0]
                fr = W.discover(src, 0x100 + k, rng.randint(1, 0xFFFF), [rng.choice(net.strangers), cfg["mac"]], tos=0)
                s.frame(0, fr, op="W")
                ops.append(("W", fr[15], fr[17]))

        def frame(fr):
            s.frame(0, fr, op="W")
            ops.append(("W", fr[15], fr[17]))

        def ticks(n, step):
            s.add("KR 0 %d %d" % (n, step))
            ops.append(("KR", n, step))
        if rng.random() < 0.3:
            # other stations' Hellos are on the wire before anybody enumerates here (somebody else's mapping run): they belong
            # to no block of ours
            for _ in range(rng.randint(1, 6)):
                frame(G.f_hello(rng, net, tos=rng.choice([0, 0, 1])))
            if rng.random() < 0.5:
                ticks(rng.choice([1, 3]), 100)
            idle_hellos[0] += 1
        # a session that is not complete keeps the enumeration engine in its pausing state
        frame(G.f_discover(rng, net, m=m, tos=0, ack=False, nstations=rng.choice([1, 2]), gen=1))
        load = rng.choice(["light", "medium", "heavy", "mixed"])
        # one enumeration that goes on for a minute or two (a large segment; the mapper keeps repeating its Discover): several
        # hundred blocks without the engine ever returning to idle
        long_run = i % 10 == 9
        if long_run:
            load = rng.choice(["medium", "heavy", "mixed"])
        for blk in range(rng.randint(210, 430) if long_run else rng.randint(15, 60)):
            k = {"light": rng.choice([0, 0, 1, 2]), "medium": rng.randint(0, 12), "heavy": rng.randint(8, 40),
                 "mixed": rng.choice([0, 1, 3, 9, 10, 11, 15, 30])}[load]
            # Hellos of other stations spread over the block, our own ticks (100 ms, 50 ms, 10 ms or late) in between
            left = k
            for part in range(rng.choice([1, 2, 3, 6])):
                n_here = left if part == 0 and rng.random() < 0.3 else rng.randint(0, left)
                for _ in range(n_here):
                    frame(G.f_hello(rng, net, tos=rng.choice([0, 0, 1])))
                left -= n_here
                r = rng.random()
                if r < 0.6:
                    ticks(rng.choice([1, 1, 2, 3]), 100)
                elif r < 0.8:
                    ticks(rng.choice([1, 3, 6]), rng.choice([10, 50]))
                elif r < 0.9:
                    ticks(1, rng.choice([300, 301, 999, 1000, 1500]))
            for _ in range(left):
                frame(G.f_hello(rng, net))
            r = rng.random()
            if long_run and r >= 0.08:
                r = 0.5 if r < 0.9 else 0.17
            if r < 0.08:
                frame(G.f_discover(rng, net, m=m, tos=0, ack=False, nstations=2, gen=1))     # the mapper repeats its Discover
            elif r < 0.16:
                frame(G.f_discover(rng, net, m=m, tos=0, ack=True, nstations=2, gen=1))      # ... and acknowledges us: session complete
                nt = rng.choice([0, 0, 0, 1, 2, 8])          # usually at once: the enumeration engine is still waiting
                if nt:
                    ticks(nt, 100)
                if nt >= 2 and rng.random() < 0.5:
                    for _ in range(rng.randint(1, 4)):          # heard while the engine is idle again
                        frame(G.f_hello(rng, net))
                    idle_hellos[0] += 1
                frame(G.f_discover(rng, net, m=(m + 1) % 3, tos=0, ack=False, nstations=1, gen=2))
            elif r < 0.13:
                frame(G.f_reset(rng, net, m=m))
                ticks(2, 100)
                frame(G.f_discover(rng, net, m=m, tos=0, ack=False, nstations=1, gen=rng.choice([1, 3])))
            elif r < 0.2:
                frame(G.f_probe(rng, net))
        s.meta = dict(ops=ops, now0=now0, timed=timed, crowd=crowd, long_run=long_run, idle_hellos=idle_hellos[0])
        scns.append(s)
    return scns


def snap(inp, kind):
    for e in reversed(inp.ev):
        if e[0] == "A" and e[1] == kind:
            return e[2]
    return None


def monitor(scn, sobj, rep, sf, ck):
    ops = sobj.meta["ops"]
    it = iter(scn.inputs)
    heard = 0                 # Hellos heard since the last block end (the monitor's own count)
    prev = None               # enumeration snapshot after the previous input
    blocks = nontriv_blocks = 0
    seen = set()
    dead = False
    # the monitor's own view of whether enumeration has to be running: sessions opened by non-acknowledging Discovers and not
    # yet completed, reset, expired (60 s) or dropped by the 30 s silence rule - kept conservative (shorter limits)
    clock = sobj.meta.get("now0", 0)
    timed = sobj.meta.get("timed", False)
    book = {}
    book_ok = True
    last_frame = None
    r_since = None
    map_state = 0
    frames_it = iter([ln for ln in sobj.lines if ln.startswith("W ")])
    for op in ops:
        if dead:
            break
        reps = op[1] if op[0] == "KR" else 1
        raw = None
        if op[0] == "W":
            ln = next(frames_it, None)
            raw = bytes.fromhex(ln.split(" ")[2]) if ln else None
        for _ in range(reps):
            inp = next(it, None)
            if inp is None or inp.out is None:
                dead = True
                break
            if op[0] == "KR":
                clock += op[2]
            if op[0] == "W":
                last_frame = clock
                if raw is not None and len(raw) >= 36 and op[2] == W.OP_DISCOVER:
                    ev = next((x[1] for x in inp.ev if x[0] == "R"), None)
                    key = (raw[24:30], raw[32:34])
                    ent = book.setdefault(key, dict(complete=False, last=clock))
                    ent["last"] = clock
                    if ev is not None and int(ev) in (3, 5):
                        ent["complete"] = True
                elif op[2] == W.OP_RESET:
                    book.clear()
                    book_ok = True
                mm = snap(inp, "M")
                if mm is not None:
                    st_now = int(mm[0])
                    if st_now == 0 and map_state != 0:
                        book.clear()          # the daemon clears the table when the mapping engine falls back to idle
                    map_state = st_now
            e = snap(inp, "E")
            if e is None:
                continue
            cur = dict(state=int(e[0]), Ni=int(e[2]), r=int(e[3]), begun=int(e[4]), hello=int(e[5]), block=int(e[6]))
            own_hello = any(x[0] == "H" for x in inp.ev)
            init = False
            if op[0] == "W":
                if op[2] == W.OP_HELLO:
                    heard += 1
                elif op[2] == W.OP_DISCOVER and prev is not None and prev["state"] == 0:
                    heard = 0          # a new enumeration starts: statistics are initialised
                    init = True
                elif op[2] == W.OP_DISCOVER and prev is None:
                    heard = 0
                    init = True
            if prev is not None and not init and cur["block"] != prev["block"] and cur["block"] != 0:
                # a block ended inside this input's tick
                blocks += 1
                now = cur["block"] - 300

                def bad(key, msg):
                    rep.violation("C13:history:" + key, "scenario %s input %d (%s): block ends at t=%d ms, %d Hellos heard in it%s, "
                                  "count before %d: %s" % (scn.sid, inp.n, inp.op, now, heard,
                                                           " (own Hello sent in the same tick)" if own_hello else "", prev["Ni"], msg),
                                  replay=sobj.text())
                begun = cur["begun"]
                if heard > 0 and begun:
                    want = min(NMAX, ALPHA * heard * heard)
                    nontriv_blocks += 1
                    seen.add("formula-applied")
                    if heard >= 15:
                        seen.add("saturated")
                    if cur["Ni"] != want:
                        bad("count-not-formula-of-hellos-heard", "count after %d, formula gives %d" % (cur["Ni"], want))
                else:
                    want = prev["Ni"]
                    seen.add("no-update:" + ("nothing-heard" if heard == 0 else "not-begun"))
                    if cur["Ni"] != want:
                        bad("count-changed-without-load", "count after %d" % cur["Ni"])
                if not (ALPHA <= cur["Ni"] <= NMAX):
                    bad("count-out-of-range", "count after %d" % cur["Ni"])
                if cur["r"] != 0:
                    bad("per-block-counter-not-cleared", "r=%d after the block end" % cur["r"])
                need = max((8 * cur["Ni"] + 2) // 3, 6)
                if cur["hello"] != 0 and cur["hello"] - now < need:
                    bad("interval-below-load-formula", "next Hello at t=%d, %d ms away, the load formula needs %d" % (cur["hello"], cur["hello"] - now, need))
                if own_hello and heard > 0:
                    seen.add("own-hello-and-block-end-in-one-tick")
                heard = 0
            else:
                if own_hello and heard > 0:
                    seen.add("own-hello-inside-a-block-with-hellos-heard")
                # between block ends the Hello deadline moves only when the own Hello is sent (re-armed from then), when it is
                # put off by the 1 s pacing rule, or when enumeration starts afresh: nothing else may pull it in
                if prev is not None and not init and not own_hello and prev["hello"] != 0 and cur["hello"] != 0 and cur["hello"] < prev["hello"]:
                    rep.violation("C13:history:hello-deadline-pulled-in",
                                  "scenario %s input %d (%s): the next Hello was due at t=%d (count %d), after this input it is due at t=%d although "
                                  "no block ended and no own Hello was sent" % (scn.sid, inp.n, inp.op, prev["hello"], prev["Ni"], cur["hello"]),
                                  replay=sobj.text())
                elif prev is not None and prev["state"] == 2 and cur["state"] == 1:
                    seen.add("wait>pausing")
            # Hellos heard in a running block are folded into the count when the block ends, 300 ms after it began: a tick that
            # comes 300 ms or more after the per-block counter left zero finds the block over
            if cur["r"] == 0:
                r_since = None
            elif r_since is None:
                r_since = clock
            if timed and op[0] == "KR" and r_since is not None and clock >= r_since + 300:
                must_run = book_ok and last_frame is not None and clock - last_frame < 25000 and \
                    any(not x["complete"] and clock - x["last"] < 55000 for x in book.values())
                if must_run:
                    seen.add("tick-after-a-block-with-hellos-while-an-incomplete-session-is-live")
                    if sobj.meta.get("crowd"):
                        seen.add("the-same-beside-eight-or-more-complete-sessions")
                    rep.violation("C13:history:hellos-heard-but-the-block-does-not-end",
                                  "scenario %s input %d (%s): %d Hellos counted since t=%d ms, tick at t=%d ms (%d ms later), the mapper's session "
                                  "is not complete (%d sessions known, %d complete): the block has not ended, the count is still %d, engine state %d"
                                  % (scn.sid, inp.n, inp.op, cur["r"], r_since, clock, clock - r_since, len(book),
                                     sum(1 for x in book.values() if x["complete"]), cur["Ni"], cur["state"]), replay=sobj.text())
                    r_since = None
            elif timed and op[0] == "KR" and cur["r"] == 0 and prev is not None and prev["r"] > 0:
                if any(not x["complete"] for x in book.values()):
                    seen.add("tick-after-a-block-with-hellos-while-an-incomplete-session-is-live")
                    if sobj.meta.get("crowd"):
                        seen.add("the-same-beside-eight-or-more-complete-sessions")
            prev = cur
    if sobj.meta.get("idle_hellos") and nontriv_blocks:
        seen.add("hellos-heard-while-the-engine-was-idle")
    if sobj.meta.get("long_run") and nontriv_blocks >= 150:
        seen.add("one-enumeration-of-more-than-200-blocks")
    rep.evaluations += blocks
    rep.count("history_block_ends", blocks)
    rep.count("history_block_ends_with_formula", nontriv_blocks)
    for x in seen:
        rep.count("reach:" + x)
    if nontriv_blocks:
        rep.nontrivial((scn.sid, nontriv_blocks, tuple(sorted(seen))))


def run(ctx):
    rep = ctx.report
    binary = H.build(ctx.work, "asan")
    scns = make_scenarios(ctx, ctx.n(400, 8000))
    run_monitored(ctx, binary, scns, monitor, tag="band")
    rep.rule += ("; plus RepeatBand histories through the documented daemon flow: foreign Hello frames, own Hellos and 300 ms block "
                 "ends produced by the periodic tick; the monitor counts the Hellos heard per block itself and judges every block end "
                 "(count == formula of the monitor's count when begun, unchanged otherwise, range, per-block counter cleared, next Hello "
                 "no sooner than the load formula)")
    rep.assumptions += ["history part: 'begun' is read from the engine's public state; the Hello count is the monitor's own",
                        "daemon flow is a transcription of darwin-main.c:289-404 (harness/vh_flow.c)"]
    c = rep.counters
    rep.need("history_block_ends", c.get("history_block_ends", 0), 2000)
    rep.need("history_block_ends_with_formula", c.get("history_block_ends_with_formula", 0), 500)
    rep.need("hellos-heard-while-the-engine-was-idle", c.get("reach:hellos-heard-while-the-engine-was-idle", 0), 50)
    rep.need("one-enumeration-of-more-than-200-blocks", c.get("reach:one-enumeration-of-more-than-200-blocks", 0), 10)
    for name in ("tick-after-a-block-with-hellos-while-an-incomplete-session-is-live", "the-same-beside-eight-or-more-complete-sessions"):
        rep.need(name, c.get("reach:" + name, 0), 20)
    for name in ("wait>pausing", "formula-applied", "saturated", "no-update:nothing-heard", "own-hello-inside-a-block-with-hellos-heard"):
        rep.need(name, c.get("reach:" + name, 0), 20)
