"""C14, history part: random frame/clock/tick sequences through the documented daemon flow and the API."""
from .. import gen as G
from .. import harness as H
from .. import wire as W
from ..runner import run_monitored

Q, C, E = 0, 1, 2


def spec_step(s, inp, done=-3):
    if s == Q and inp == 0:
        return C
    if s == C and inp == 2:
        return E
    if s == E and inp == done:
        return C
    if s in (C, E) and inp in (8, -1):
        return Q
    return s


def make_flow_scenarios(ctx, count):
    scns = []
    for i in range(count):
        rng = G.rng_for(ctx.seed, "C14f", i)
        cfg = G.rand_cfg(rng, mtu=1500)
        net = G.Net(rng, cfg["mac"])
        s = H.Scenario("f%d" % i)
        s.iface(0, **H.iface_kw(cfg)).glob(**G.global_kw(G.rand_global(rng, icon_size=0)))
        s.add("OPT sleep=0 txhex=0")
        s.add("NOW %d" % rng.choice([0, 1, 500, 999, 1000, 77777, (1 << 32) - 40000, (1 << 32) - 5000, (1 << 32) + 1, 1 << 40, 4294967296000 - 100000, 4294967296000 - 20000]))
        ops = []
        m = 0
        # half of the histories run beside a second interface of the same process with its own engine and traffic,
        # ticked first in every pass of the daemon's loop; its inputs are not judged
        shadow = i % 2 == 1
        if shadow:
            cfg1 = G.rand_cfg(rng, mtu=1500)
            net1 = G.Net(rng, cfg1["mac"])
            s.iface(1, **H.iface_kw(cfg1))
            s.frame(1, G.f_discover(rng, net1, m=0, tos=0, nstations=1), op="W")
        for _ in range(rng.randint(40, 120)):
            r = rng.random()
            if r < 0.30:
                ms = rng.choice([0, 1, 99, 100, 999, 1000, 1001, 4000, 4999, 5000, 5001, 6000, 28999, 29000, 29999,
                                 30000, 30001, 30999, 31000, 31001, 60000, 61000, 120000, 4294968000, (1 << 32) + 30000, 1 << 41]) if rng.random() < 0.8 \
                    else rng.randint(0, 120000)
                s.add("ADV %d" % ms)
                ops.append(("ADV", ms))
            elif r < 0.50:
                if shadow and rng.random() < 0.8:
                    if rng.random() < 0.25:
                        s.frame(1, rng.choice([G.f_discover(rng, net1, m=0, tos=0, nstations=1), G.f_query(rng, net1, 0),
                                               G.f_hello(rng, net1)]), op="W")
                    s.add("K 1")
                s.add("K 0")
                ops.append(("K",))
            else:
                k = rng.random()
                if k < 0.3:
                    fr = G.f_discover(rng, net, m=m, tos=0, nstations=rng.choice([0, 1, 3]))
                elif k < 0.42:
                    fr, _ = G.f_emit(rng, net, m, n=rng.randint(1, 3))
                elif k < 0.52:
                    fr = W.simple(W.OP_CHARGE, net.own, net.mappers[m])
                elif k < 0.62:
                    fr = G.f_query(rng, net, m)
                elif k < 0.72:
                    fr = G.f_probe(rng, net)
                elif k < 0.80:
                    fr = G.f_hello(rng, net)
                elif k < 0.88:
                    fr = G.f_reset(rng, net, m=m)
                else:
                    fr = G.f_misc(rng, net, tos=0)
                s.frame(0, fr, op="W")
                ops.append(("W", fr[17]))
        s.meta = dict(ops=ops, kind="flow", shadow=shadow)
        scns.append(s)
    return scns


def make_api_scenarios(ctx, count):
    scns = []
    for i in range(count):
        rng = G.rng_for(ctx.seed, "C14a", i)
        s = H.Scenario("a%d" % i)
        s.iface(0, mtu=1500, mac=G.rand_mac(rng))
        s.add("OPT sleep=0")
        s.add("NOW %d" % rng.choice([0, 1, 999, 1000, 50000, (1 << 32) - 40000, (1 << 32) - 5000, 1 << 40]))
        s.add("AI 0")
        ops = [("AI",)]
        for _ in range(rng.randint(60, 200)):
            r = rng.random()
            if r < 0.3:
                ms = rng.choice([0, 1, 999, 1000, 4000, 5000, 6000, 29000, 30000, 31000, 61000]) if rng.random() < 0.8 \
                    else rng.randint(0, 100000)
                s.add("ADV %d" % ms)
                ops.append(("ADV", ms))
            elif r < 0.45:
                s.add("K 0")
                ops.append(("K",))
            else:
                inp = rng.choice([0, 0, 0, 2, 2, 8, -1, -2, -3, -3, 6, 4, 11, 9, 9, 1, 3, 5, 7, 10, 12, rng.randint(-128, 255)])
                # one frame event, composed as the daemon composes it: (table update,) mapping step,
                # inactivity timer restart, (charge counter)
                if inp == 0 and rng.random() < 0.7:
                    s.add("TA 0 %s %d %d" % (G.rand_mac(rng).hex(), rng.randint(0, 3), rng.randint(0, 9)))
                    ops.append(("TA",))
                s.add("SM 0 %d" % inp)
                ops.append(("SM", inp))
                if inp >= 0:
                    s.add("MR 0")
                    ops.append(("MR",))
                    if inp == 9:
                        s.add("MC 0")
                        ops.append(("MC",))
        s.meta = dict(ops=ops, kind="api")
        scns.append(s)
    return scns


def snap(inp, kind):
    for e in reversed(inp.ev):
        if e[0] == "A" and e[1] == kind:
            return e[2]
    return None


def monitor(scn, sobj, rep, sf, ck):
    ops = sobj.meta["ops"]
    now = None
    for ln in sobj.lines:
        if ln.startswith("NOW "):
            now = int(ln[4:])
    it = iter(scn.inputs)
    if sobj.meta.get("shadow"):
        rep.count("ticks_beside_a_second_interface", sum(1 for i in scn.inputs if i.iface == 1 and i.op == "K"))
    state, last_ts = Q, None
    tmo = None
    last_frame_ms = None
    seen = set()
    steps = 0

    def bad(key, msg, i):
        rep.violation("C14:" + key, "scenario %s op #%d %r at t=%d ms: %s" % (scn.sid, i, ops[i], now, msg), replay=sobj.text())

    for i, op in enumerate(ops):
        if op[0] == "ADV":
            now += op[1]
            continue
        inp = next(it, None)
        while inp is not None and inp.iface != 0 and inp.out is not None:
            now += inp.out[3]        # the other interface's handler slept: the clock is shared
            inp = next(it, None)
        if inp is None or inp.out is None:
            break
        t_start = now
        now += inp.out[3]            # sleeps inside the core advance the virtual clock
        m = snap(inp, "M")
        if op[0] in ("AI",):
            if m:
                state, last_ts = int(m[0]), int(m[1])
                tmo = [int(x) for x in m[5:8]]
            continue
        if op[0] in ("W", "SM"):
            if m is None:
                continue
            got, got_ts = int(m[0]), int(m[1])
            tmo = [int(x) for x in m[5:8]]
            ev = op[1]
            now_s = t_start // 1000
            steps += 1
            if last_ts is not None:
                to = tmo[state]
                timed_out = to > 0 and now_s - last_ts > to
                if timed_out:
                    ok = got == Q or (ev == 0 and got == C)
                    seen.add("state-timeout:%d" % state)
                else:
                    ok = got == spec_step(state, ev)
                if not ok:
                    bad("history:%s" % ("timeout-not-honoured" if timed_out else "wrong-transition"),
                        "state %d, input %d, %ds since last input (timeout %ds): new state %d"
                        % (state, ev, now_s - last_ts, to, got), i)
                elif got != state:
                    seen.add("move:%d>%d" % (state, got))
            state, last_ts = got, got_ts
            if op[0] == "W":
                last_frame_ms = t_start
            continue
        if op[0] == "MR":
            last_frame_ms = t_start
            continue
        if op[0] == "K":
            if m is None:
                continue
            got = int(m[0])
            tsnap = snap(inp, "T")
            if last_frame_ms is not None:
                el = t_start - last_frame_ms
                if el >= 31000:
                    seen.add("tick-after-31s" + ("-active" if state != Q else ""))
                    if got != Q:
                        bad("tick:session-not-ended-after-30s", "%d ms since the last frame, mapping state %d" % (el, got), i)
                    if int(m[2]) != 0:
                        bad("tick:charge-counter-not-cleared", "%d ms since the last frame, ctc=%s" % (el, m[2]), i)
                    if tsnap is not None and (int(tsnap[0]) != 0 or len(tsnap) > 2):
                        bad("tick:session-table-not-emptied", "%d ms since the last frame, table count=%s entries=%d" % (el, tsnap[0], len(tsnap) - 2), i)
                elif el < 29000:
                    seen.add("tick-before-29s" + ("-active" if state != Q else ""))
                    if got != state:
                        bad("tick:state-changed-early", "%d ms since the last frame: mapping state %d -> %d" % (el, state, got), i)
            state, last_ts = got, int(m[1])
            steps += 1
    rep.evaluations += steps
    rep.count("history_steps", steps)
    for x in seen:
        rep.count("reach:" + x)
    if any(x.startswith("tick-after-31s-active") for x in seen) and any(x.startswith("move:") for x in seen):
        rep.nontrivial((scn.sid, tuple(sorted(seen))))


def run(ctx):
    rep = ctx.report
    binary = H.build(ctx.work, "asan")
    scns = make_flow_scenarios(ctx, ctx.n(1000, 25000)) + make_api_scenarios(ctx, ctx.n(1000, 25000))
    run_monitored(ctx, binary, scns, monitor, tag="tick")
    rep.rule += ("; plus random frame/clock/tick histories through the documented daemon flow and through the API, judged "
                 "per step against the same table (with the object's own timeouts) and against the tick clause "
                 "(>=31 s idle: idle, ctc 0, table empty; <29 s: no change); such a history is non-trivial when it had a "
                 "state change and a tick that ended an active session")
    rep.assumptions += ["daemon flow is a transcription of darwin-main.c:289-404 (harness/vh_flow.c)",
                        "the tick clause allows one second of rounding either way (the engine counts whole seconds)"]
    c = rep.counters
    for name in ("tick-after-31s-active", "tick-before-29s-active", "move:0>1", "move:1>2", "move:1>0", "move:2>0", "state-timeout:1", "state-timeout:2"):
        rep.need(name, c.get("reach:" + name, 0), 20)
    rep.need("ticks_beside_a_second_interface", c.get("ticks_beside_a_second_interface", 0), 1000)
