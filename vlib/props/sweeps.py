"""Run vh_sweep sub-commands (online oracles in C) and fold their output into the report."""
import os
import subprocess
from concurrent.futures import ThreadPoolExecutor

from .. import harness as H


def run_sweep(ctx, sub, argsets, pid, flavour="asan", stdin_data=None, sanitizer_is_violation=False,
              timeout=7200, binary=None, crash_is_inconclusive=True):
    """argsets: list of argument lists, one process each (run in parallel). [] means one run without args."""
    rep = ctx.report
    if binary is None:
        binary = H.build(ctx.work, flavour, program="vh_sweep", esp32=False)
    if not argsets:
        argsets = [[]]
    if sub == "c05" and argsets == [[]]:
        step = 16
        argsets = [[str(lo), str(lo + step)] for lo in range(0, 256, step)]
    env = dict(os.environ)
    env.update(H.SAN_ENV)

    def one(args):
        p = subprocess.run([binary, sub] + [str(a) for a in args], input=stdin_data, stdout=subprocess.PIPE,
                           stderr=subprocess.PIPE, text=True, env=env, timeout=timeout)
        return args, p.returncode, p.stdout, p.stderr

    with ThreadPoolExecutor(max_workers=H.NCPU) as ex:
        results = list(ex.map(one, argsets))
    for args, rc, out, err in results:
        for ln in out.split("\n"):
            if ln.startswith("STAT "):
                _, name, val = ln.split(" ", 2)
                val = int(val)
                if name == "cases":
                    rep.evaluations += val
                elif name == "distinct_nontrivial":
                    rep.distinct_extra += val
                rep.count("sweep_%s_%s" % (sub, name), val)
            elif ln.startswith("VIOL "):
                _, key, detail = (ln.split(" ", 2) + [""])[:3]
                rep.violation(key, "vh_sweep %s %s: %s" % (sub, " ".join(map(str, args)), detail),
                              replay="# replay: build vh_sweep (see vlib/harness.py) and run: vh_sweep %s %s\n" % (sub, " ".join(map(str, args))))
            elif ln.startswith("VIOLCOUNT "):
                _, key, cnt = ln.split(" ", 2)
                if key in rep.viol:
                    printed = sum(1 for l2 in out.split("\n") if l2.startswith("VIOL %s " % key))
                    rep.viol[key]["count"] += max(0, int(cnt) - printed)
            elif ln.startswith("SAMPLE "):
                rep.sample(ln[7:])
            elif ln.startswith("INCONCLUSIVE "):
                rep.inconclusive.append("vh_sweep %s: %s" % (sub, ln[13:]))
            elif ln.startswith("CRASH "):
                rep.count("sweep_%s_child_crashes" % sub)
                rep.inconclusive.append("vh_sweep %s %s: child died (%s)" % (sub, args, ln))
        sf = H.sanitizer_findings(err)
        for key, txt in sf:
            rep.count("sanitizer:" + key)
            if sanitizer_is_violation:
                rep.violation(key, "vh_sweep %s %s:\n%s" % (sub, args, txt))
        if rc != 0:
            rep.count("sweep_%s_nonzero_exit" % sub)
            if crash_is_inconclusive and (not sanitizer_is_violation or not sf):
                rep.inconclusive.append("vh_sweep %s %s exited %d: %s" % (sub, args, rc, (err or "")[-400:]))
    return results
