"""C11 - acknowledgement by the mapper is recognised from the Discover."""
from . import sweeps


def run(ctx):
    rep = ctx.report
    rep.rule = ("derive_session_event (built without LLTD_TESTING) on harness-built Discovers: every count 1..240 x every "
                "position of the own address (and absent) x 21 session-table variants (incl. the mapper known only under another generation number - next one, 0, 0xffff, byte-swapped -, sessions already marked complete, known sequence numbers 1, 0x7fff, 0x8000, 0x8001, 0xffff apart and bit-flipped), each variant again after the clock moved on by "
                "59 s, 60 s, 61 s, 62 s, 1 h and 2^33 ms since the sessions were recorded (no expiry tick in between), plus second Discovers of a session whose first one had a longer list with the own address elsewhere (own address behind the counted entries, inside them, absent), plus tables with a long life behind them (the mapper's session looked up and recorded, then N = 1 .. 131072 Resets / other sessions recorded and removed, N around 2^4, 2^8, 2^9, 2^16), plus all 256 opcodes x both Reset "
                "destinations; non-trivial = own address present (recognition needed) or opcode classification case")
    rep.assumptions = ["station list = consecutive 6-byte addresses at offset 36 (MS-LLTD)",
                       "filler bytes are >= 0x80 so the own address cannot appear at any other alignment"]
    seeds = [1] if ctx.quick else list(range(1, 21))
    sweeps.run_sweep(ctx, "c11", [[s, 240] for s in seeds], "C11")
    rep.exhaustive = True
    rep.need("cases", rep.counters.get("sweep_c11_cases", 0), 145000)
    rep.need("sessions_of_different_age_cases", rep.counters.get("sweep_c11_sessions_of_different_age_cases", 0), 100)
    rep.need("second_discover_cases", rep.counters.get("sweep_c11_second_discover_cases", 0), 300)
    rep.need("table_history_cases", rep.counters.get("sweep_c11_table_history_cases", 0), 400)
    rep.need("odd_entry_cases", rep.counters.get("sweep_c11_odd_entry_cases", 0), 100)
    rep.need("straddling_cases", rep.counters.get("sweep_c11_straddling_cases", 0), 200)
    rep.need("clock_advanced_cases", rep.counters.get("sweep_c11_clock_advanced_cases", 0), 15000)
