"""C07 - every observed probe is reported to the mapper exactly once."""
import struct

from .. import gen as G
from .. import harness as H
from .. import wire as W
from ..model import MapperModel, ObsModel
from ..runner import run_monitored


def make_scenarios(ctx, count):
    scns = []
    for i in range(count):
        rng = G.rng_for(ctx.seed, "C07", i)
        mtu = G.pick_mtu(rng) if i % 4 else [576, 1500, 9216, 577][(i // 4) % 4]
        cfg = G.rand_cfg(rng, mtu=mtu)
        net = G.Net(rng, cfg["mac"])
        own = cfg["mac"]
        cap = G.cap_qresp(mtu)
        m = rng.randrange(len(net.mappers))
        bridged = rng.random() < 0.35
        frames = [G.f_discover(rng, net, m=m, tos=0, bridged=bridged)]
        seq = rng.randint(1, 60000)
        requeried = 0
        mtu_changes = {}
        for rnd in range(rng.randint(2, 4)):
            if rnd > 0 and rng.random() < 0.2:
                # the link's MTU changes while the interface lives on; what fits into a QueryResp is decided by the MTU
                # at the time of the Query
                mtu = rng.choice([576, 1500, 9000, G.pick_mtu(rng)])
                cap = G.cap_qresp(mtu)
                mtu_changes[len(frames)] = mtu
            if rnd > 0 and rng.random() < 0.3:
                # nothing is pending here (drained or reset); quick-discovery traffic must not stop recording
                if rng.random() < 0.5:
                    frames.append(G.f_discover(rng, net, m=m, tos=1, bridged=bridged))
                frames.append(G.f_reset(rng, net, m=rng.choice([m, (m + 1) % 3]), tos=1))
                quick_reset_before_burst = True
            kchoices = [0, 1, cap - 1, cap, cap + 1, 2 * cap, 300, rng.randint(0, 300)]
            k = min(300, max(0, rng.choice(kchoices)))
            if mtu > 4000 and k > 120 and rng.random() < 0.7:
                k = rng.choice([0, 1, 5, 50])
            srcs = G.distinct_macs(rng, k + 4, avoid=[own])
            reals = G.distinct_macs(rng, 6, avoid=[own])
            # stations with nearly equal addresses (one byte, or only the first two bytes apart) are distinct stations
            for lst in (srcs, reals):
                for j in range(1, len(lst)):
                    if rng.random() < 0.15:
                        cand = G.related_mac(rng, lst[j - 1], fold=rng.random() < 0.3)
                        if cand not in lst and cand != own:
                            lst[j] = cand
            if rng.random() < 0.1:
                reals[0] = own                 # our own emission handed back by the segment is an observation like any other
            obs = []
            for j in range(k):
                obs.append((srcs[j], rng.choice(reals)))
            # pairs differing only in Ethernet source / only in real source
            if k >= 2 and rng.random() < 0.7:
                obs.append((srcs[k], obs[0][1]))          # same real source, other Ethernet source
                obs.append((obs[1][0], reals[5] if reals[5] != obs[1][1] else reals[4]))   # same Ethernet source, other real source
            burst = []
            trains = [rng.random() < 0.4 for _ in obs]
            if obs and rng.random() < 0.35:
                # the mapper first has this station emit with spoofed sources - the very (kind, source, destination) triples
                # that other stations will use towards this station in a moment: what we sent must not be confused with
                # what we then receive
                picks = rng.sample(range(len(obs)), min(len(obs), rng.randint(1, 3)))
                descs = []
                for j in picks:
                    descs.append((0 if trains[j] else 1, 0, obs[j][0], own if rng.random() < 0.7 else rng.choice(net.strangers)))
                seq = seq + 1 if seq < 0xFFFF else 1
                frames.append(W.emit(own, net.mappers[m], seq, descs, eth_src=net.bridges[m] if bridged else None))
            for (es, rs), tr in zip(obs, trains):
                burst.append(W.probe(own, es, own, rs, train=tr))
                if rng.random() < 0.15:                    # exact duplicate
                    burst.append(burst[-1])
            for _ in range(rng.randint(0, 6)):             # frames for other stations
                o = rng.choice(net.strangers)
                burst.append(W.probe(o, G.rand_mac(rng), o, rng.choice(reals), train=rng.random() < 0.5))
            rng.shuffle(burst)
            # unrelated traffic from the mapper in between
            for _ in range(rng.randint(0, 3)):
                pos = rng.randint(0, len(burst))
                r = rng.random()
                if r < 0.4:
                    burst.insert(pos, G.f_discover(rng, net, m=m, tos=0, bridged=bridged))
                elif r < 0.7:
                    fr, _ = G.f_emit(rng, net, m, n=rng.randint(1, 2), bridged=bridged)
                    burst.insert(pos, fr)
                else:
                    burst.insert(pos, G.f_qlt(rng, net, m, bridged=bridged, typ=0x11, off=0))
            frames += burst
            nq = (len(obs) + max(cap, 1) - 1) // max(cap, 1) + 2
            if rng.random() < 0.15:
                nq = 1                                       # partial drain, then more probes arrive
            for _ in range(nq):
                seq = seq + 1 if seq < 0xFFFF else 1
                frames.append(G.f_query(rng, net, m, seq=seq, bridged=bridged))
                if rng.random() < 0.08:
                    # the mapper repeats its Discover (its own transaction id) and then asks again under the number it used last:
                    # every QueryResp carries the number of the Query it answers
                    if rng.random() < 0.7:
                        frames.append(G.f_discover(rng, net, m=m, tos=0, bridged=bridged, xid=(seq ^ rng.randint(1, 0xFFFF)) & 0xFFFF))
                    frames.append(G.f_query(rng, net, m, seq=seq, bridged=bridged))
                    requeried += 1
            if rng.random() < 0.3:
                frames.append(G.f_reset(rng, net, m=m, tos=0))
                frames.append(G.f_discover(rng, net, m=m, tos=0, bridged=bridged))
            elif rng.random() < 0.2:
                # probes, then Reset discards them, then a Query must list nothing
                for j in range(rng.randint(1, 5)):
                    frames.append(W.probe(own, G.rand_mac(rng), own, rng.choice(reals)))
                frames.append(G.f_reset(rng, net, m=m, tos=0))
                frames.append(G.f_discover(rng, net, m=m, tos=0, bridged=bridged))
                seq = seq + 1 if seq < 0xFFFF else 1
                frames.append(G.f_query(rng, net, m, seq=seq, bridged=bridged))
        stranger_query = None
        if i % 3 == 2:
            # the history ends with a Query from a station that is not the session's mapper, under a number of its own: whatever
            # the responder makes of it, a QueryResp that answers it carries that Query's sequence number
            other = rng.choice(net.strangers)
            sq = (seq + rng.choice([1, 2, 0x100, 0x8000, rng.randint(3, 0xFFF0)])) & 0xFFFF or 1
            stranger_query = len(frames)
            frames.append(W.query(own, other, sq, eth_src=other))
        s = H.Scenario("q%d" % i, meta=dict(frames=frames, own=own, mtu=cfg["mtu"], bridged=bridged, mtu_changes=mtu_changes, requeried=requeried, stranger_query=stranger_query))
        s.iface(0, **H.iface_kw(cfg)).glob(**G.global_kw(G.rand_global(rng, icon_size=50)))
        s.add("OPT sleep=0")
        shadow = None
        if i % 4 == 1:
            cfg1, fr1 = G.shadow_iface(rng, cfg, max(5, len(frames) // 4))
            s.iface(1, **H.iface_kw(cfg1))
            shadow = (1, fr1)
        s.frames(0, frames, rng if i % 2 else None, p_gap=0.25, base=True, shadow=shadow,
                 inserts={k: ["MTU 0 %d %d" % (v, cfg["rxseed"])] for k, v in mtu_changes.items()})
        scns.append(s)
    return scns


SEE_CAP = 1024          # the responder may stop recording new observations once this many are pending (memory bound, C19)


def make_saturating(ctx, count):
    """the pending record reaches the responder's bound, is then delivered completely by Queries (no Reset), and fresh
    observations arrive afterwards: a Query round ends the same way a Reset does"""
    scns = []
    for i in range(count):
        rng = G.rng_for(ctx.seed, "C07sat", i)
        mtu = rng.choice([9216, 9000, 4096])
        cfg = G.rand_cfg(rng, mtu=mtu)
        net = G.Net(rng, cfg["mac"])
        own = cfg["mac"]
        cap = G.cap_qresp(mtu)
        m = rng.randrange(len(net.mappers))
        frames = [G.f_discover(rng, net, m=m, tos=0)]
        seq = rng.randint(1, 50000)
        real = rng.choice(net.strangers)
        k = rng.choice([1024, 1025, 1100, 1600])
        for j in range(k):
            frames.append(W.probe(own, bytes([2, 0x7e]) + j.to_bytes(4, "big"), own, real, train=(j % 3 == 0)))
            if j == 500 and rng.random() < 0.25:
                seq += 1
                frames.append(G.f_query(rng, net, m, seq=seq))
        for _ in range((SEE_CAP + cap - 1) // cap + 2):
            seq += 1
            frames.append(G.f_query(rng, net, m, seq=seq))
        for rnd in range(2):
            for j in range(rng.randint(1, 4)):
                frames.append(W.probe(own, bytes([2, 0x7f, rnd]) + j.to_bytes(3, "big"), own, real))
            seq += 1
            frames.append(G.f_query(rng, net, m, seq=seq))
            seq += 1
            frames.append(G.f_query(rng, net, m, seq=seq))
        s = H.Scenario("sat%d" % i, meta=dict(frames=frames, own=own, mtu=mtu, bridged=False, mtu_changes={}, saturating=True))
        s.iface(0, **H.iface_kw(cfg)).glob(**G.global_kw(G.rand_global(rng, icon_size=50)))
        s.add("OPT sleep=0")
        s.frames(0, frames)
        scns.append(s)
    return scns


def make_churn(ctx, count):
    """the pending record is steered to particular fill levels (powers of two, multiples of 256, the bound) and poked there;
    sawtooth histories pass more than 1024 observations through one session without ever draining it (G.obs_churn)"""
    scns = []
    for i in range(count):
        rng = G.rng_for(ctx.seed, "C07churn", i)
        mtu = rng.choice([576, 1500, 1500, 9000])
        cfg = G.rand_cfg(rng, mtu=mtu)
        net = G.Net(rng, cfg["mac"])
        m = rng.randrange(len(net.mappers))
        bridged = rng.random() < 0.2
        frames, mtu_changes, st = G.obs_churn(rng, net, m, mtu, mode=["boundaries", "sawtooth", "small", "flood"][i % 4],
                                             budget=ctx.n(1800, 4000), bridged=bridged)
        s = H.Scenario("ch%d" % i, meta=dict(frames=frames, own=cfg["mac"], mtu=mtu, bridged=bridged, mtu_changes=mtu_changes,
                                             churn=st))
        s.iface(0, **H.iface_kw(cfg)).glob(**G.global_kw(G.rand_global(rng, icon_size=50)))
        s.add("OPT sleep=0")
        s.frames(0, frames, inserts={k: ["MTU 0 %d %d" % (v, cfg["rxseed"])] for k, v in mtu_changes.items()})
        scns.append(s)
    return scns


def monitor(scn, sobj, rep, sf, ck):
    frames = sobj.meta["frames"]
    own, mtu = sobj.meta["own"], sobj.meta["mtu"]
    cap = G.cap_qresp(mtu)
    mm = MapperModel()
    om = ObsModel(own)
    seen = set()
    maybe = set()
    queries = 0
    drain_len = 0
    listed_total = 0
    last_q = [None, None]       # (sequence number, listed keys) of the previous judged Query

    for idx, inp in enumerate(scn.inputs):
        if idx >= len(frames):
            break
        fr = frames[idx]
        if idx in sobj.meta.get("mtu_changes", {}):
            mtu = sobj.meta["mtu_changes"][idx]
            cap = G.cap_qresp(mtu)
            seen.add("mtu-changed-mid-history")
        mm.step(fr)
        if inp.out is None:
            break
        tos, op = fr[15], fr[17]
        if tos != 0:
            continue
        if op in (W.OP_PROBE, W.OP_TRAIN):
            key = (bytes(fr[6:12]), bytes(fr[24:30]))
            if len(om.pending) >= SEE_CAP and key not in om.pending and fr[0:6] == own and fr[18:24] == own:
                maybe.add(key)                   # beyond the responder's bound: may or may not have been recorded
                seen.add("record-at-its-bound")
                continue
            what = om.probe(fr)
            rep.count("probes:" + what)
            if len(om.pending) >= SEE_CAP:
                seen.add("record-at-its-bound")
            continue
        if op == W.OP_RESET:
            om.reset()
            maybe.clear()
            continue
        if op != W.OP_QUERY:
            continue
        if idx == sobj.meta.get("stranger_query"):
            sq = struct.unpack(">H", fr[30:32])[0]
            for e in inp.sends():
                raw = e[3]
                if raw and len(raw) >= 34 and raw[17] == W.OP_QUERYRESP:
                    rep.count("queries_from_another_station_answered")
                    rep.evaluations += 1
                    rseq = struct.unpack(">H", raw[30:32])[0]
                    if rseq != sq:
                        rep.violation("C07:sequence-number-not-echoed:query-from-another-station",
                                      "scenario %s input %d: Query seq=%d from a station that is not the session's mapper answered by a "
                                      "QueryResp with seq %d" % (scn.sid, idx + 1, sq, rseq), replay=sobj.text())
            continue
        # every other Query in this workload comes from the session's mapper; a quick-discovery Reset in between may have
        # released the mapper role (C05) but the topology session's Queries are still the mapper's and are judged
        if mm.state == MapperModel.UNKNOWN:
            continue
        seq = struct.unpack(">H", fr[30:32])[0]
        queries += 1
        pending_before = len(om.pending)

        def bad(key, msg):
            rep.violation("C07:" + key, "scenario %s input %d: Query seq=%d, %d observations pending, mtu=%d (capacity %d): %s"
                          % (scn.sid, idx + 1, seq, pending_before, mtu, cap, msg), replay=sobj.text())
        sends = inp.sends()
        if len(sends) != 1 or inp.out[0] != 1:
            bad("not-exactly-one-response", "%d frames sent" % inp.out[0])
            om.pending.clear()
            continue
        raw = sends[0][3]
        f = W.decode(raw) if raw else None
        if f is None or f.opcode != W.OP_QUERYRESP or len(raw) < 34:
            bad("response-not-a-queryresp", "frame %s" % (raw.hex()[:80] if raw else None))
            om.pending.clear()
            continue
        if f.seq != seq:
            bad("sequence-number-not-echoed", "response seq %d" % f.seq)
        bridged = fr[6:12] != fr[24:30]
        want_dst = W.BCAST if bridged else fr[24:30]
        if f.eth_dst != want_dst or f.real_dst != want_dst:
            bad("destination:%s" % ("bridged-mapper-not-broadcast" if bridged else "not-the-mapper"),
                "response to %s/%s, expected %s" % (f.eth_dst.hex(), f.real_dst.hex(), want_dst.hex()))
        seen.add("bridged" if bridged else "direct")
        more, err, n, descs = W.queryresp_fields(raw)
        if len(raw) != 34 + 20 * n:
            bad("length-vs-count", "count field %d, frame length %d" % (n, len(raw)))
        if n > cap:
            bad("more-descriptors-than-fit", "%d descriptors" % n)
        resp_keys = [(esrc, rsrc) for (kind, rsrc, esrc, edst) in descs]
        if seq == last_q[0] and last_q[1] is not None and resp_keys == last_q[1] and resp_keys and not any(k in om.pending for k in resp_keys):
            # the same Query again (same number) answered with the very same list: a retransmitted response (MS-LLTD lets a
            # responder repeat its answer to a repeated request) - not a second report of these observations
            seen.add("repeated-query-answered-with-the-same-list")
            continue
        last_q[0], last_q[1] = seq, resp_keys
        keys = []
        for (kind, rsrc, esrc, edst) in descs:
            k = (esrc, rsrc)
            if k in keys:
                bad("observation-listed-twice", "eth src %s real src %s" % (esrc.hex(), rsrc.hex()))
                continue
            keys.append(k)
            p = om.pending.get(k)
            if p is None and k in maybe:
                maybe.discard(k)
                continue
            if p is None:
                bad("invented-or-repeated-observation", "eth src %s real src %s eth dst %s was not pending" % (esrc.hex(), rsrc.hex(), edst.hex()))
                continue
            if edst != p[1]:
                bad("ethernet-destination-not-as-received", "listed %s received %s" % (edst.hex(), p[1].hex()))
            del om.pending[k]
        listed_total += len(keys)
        if pending_before > 0 and n == 0:
            bad("pending-observations-not-listed", "empty response")
        if maybe and not om.pending:
            pass                                 # whether anything beyond the bound is still held is the responder's business
        elif more != (len(om.pending) > 0):
            if more:
                bad("more-flag-set-but-nothing-remains", "more flag set, model has nothing left")
            else:
                bad("observations-dropped-without-more-flag", "%d listed, %d remain undelivered and the more flag is clear"
                    % (len(keys), len(om.pending)))
                om.pending.clear()         # they are gone: do not report the same loss at every later Query
        if more:
            seen.add("more-bit")
            drain_len += 1
        else:
            if drain_len >= 2:
                seen.add("drain>=3-queries")
            drain_len = 0
        if pending_before == 0:
            seen.add("empty-query")
        if sobj.meta.get("saturating") and "record-at-its-bound" in seen and pending_before > 0 and pending_before < 10 and len(keys) == pending_before:
            seen.add("fresh-observations-reported-after-the-bound-was-reached-and-drained")
        if not om.pending:
            maybe.clear()
        if pending_before >= cap:
            seen.add("at-or-over-capacity")
    if sobj.meta.get("churn") and queries:
        st = sobj.meta["churn"]
        rep.count("churn_histories")
        rep.count("churn_partial_queries", st["partial"])
        if st["max_passed"] > SEE_CAP:
            rep.count("churn_more_than_1024_passed_through_one_undrained_session")
        for lv in st["levels"]:
            if lv in (16, 32, 64, 128, 256, 512, 768, 1024):
                rep.count("churn_level:%d" % lv)
    rep.count("queries_repeated_under_the_number_used_last", sobj.meta.get("requeried", 0) if queries else 0)
    rep.evaluations += queries
    rep.count("queries_judged", queries)
    rep.count("observations_listed", listed_total)
    for x in seen:
        rep.count("reach:" + x)
    if queries and listed_total:
        rep.nontrivial((scn.sid, queries, listed_total, tuple(sorted(seen))))
    if queries and len(rep.samples) < 2:
        rep.sample(dict(scenario=scn.sid, mtu=mtu, capacity=cap, queries=queries, listed=listed_total, reached=sorted(seen)))


def run(ctx):
    rep = ctx.report
    rep.rule = ("histories with k in {0,1,cap-1,cap,cap+1,2cap,300,random} distinct observations (plus exact duplicates, pairs "
                "differing only in Ethernet or only in real source, frames for other stations) between Queries, interleaved "
                "with Discover/Emit/QueryLargeTlv and Resets, Queries repeated until the reference set is drained, a third of the histories ending with a Query from a station that "
                "is not the session's mapper (a QueryResp that answers it echoes its number); a history "
                "is non-trivial when at least one QueryResp listed at least one descriptor")
    rep.assumptions = ["observations differing only in destination or kind are not generated; descriptor kind is not judged",
                       "probes are sent with the topology-discovery service type; mixed addressing is C10's question"]
    binary, plain = H.build_many(ctx.work, [dict(flavour="asan"), dict(flavour="plain")])
    scns = make_scenarios(ctx, ctx.n(400, 12000))
    scns = scns + make_saturating(ctx, ctx.n(12, 120)) + make_churn(ctx, ctx.n(48, 800))
    run_monitored(ctx, binary, scns, monitor, tag="query")
    # once more without red zones: a corrupted record that makes the sanitizer stop the child is, on the plain
    # build, visible as lost / duplicated / invented observations
    run_monitored(ctx, plain, scns, monitor, tag="query-plain")
    os_gcc, os_clang = H.build_many(ctx.work, [dict(flavour="plain-os"), dict(flavour="plain-clang-os")])
    run_monitored(ctx, os_gcc, scns[::2], monitor, tag="query-os")              # size-optimised builds of both compilers
    run_monitored(ctx, os_clang, scns[1::2], monitor, tag="query-clang-os")
    c = rep.counters
    rep.need("queries_from_another_station_answered", rep.counters.get("queries_from_another_station_answered", 0), 100)
    rep.need("queries_judged", c.get("queries_judged", 0), 2000)
    for name in ("fresh-observations-reported-after-the-bound-was-reached-and-drained", "more-bit", "bridged", "direct", "drain>=3-queries", "empty-query", "at-or-over-capacity", "mtu-changed-mid-history"):
        rep.need(name, c.get("reach:" + name, 0), 10)
    rep.need("queries_repeated_under_the_number_used_last", c.get("queries_repeated_under_the_number_used_last", 0), 100)
    rep.need("churn_histories", c.get("churn_histories", 0), 40)
    rep.need("churn_more_than_1024_passed_through_one_undrained_session", c.get("churn_more_than_1024_passed_through_one_undrained_session", 0), 8)
    for lv in (256, 512, 1024):
        rep.need("churn_level:%d" % lv, c.get("churn_level:%d" % lv, 0), 4)
    rep.need("clock_gaps_between_frames", rep.counters.get("clock_gaps_between_frames", 0), 200)
    rep.need("inputs_of_a_second_interface_in_between", rep.counters.get("inputs_of_a_second_interface_in_between", 0), 500)
