"""C08 - large properties are retrievable byte-exactly by offset."""
import struct

from .. import gen as G
from .. import harness as H
from .. import wire as W
from ..model import qlt_expect
from ..runner import run_monitored
from . import sweeps


def data_for(glob, typ):
    if typ == 0x0E:
        return G.icon_bytes(glob)
    if typ == 0x11:
        return glob["fname"]
    if typ == 0x13:
        return G.hwid_effective(glob)
    return b""


def make_scenarios(ctx, count):
    scns = []
    for i in range(count):
        rng = G.rng_for(ctx.seed, "C08", i)
        mtu = rng.choice([576, 577, 1500, 9216, rng.randint(576, 9216)])
        if i % 16 == 5:
            mtu = rng.choice([16383 + 34, 16384 + 34, 16385 + 34] + G.MTUS_HUGE)      # a chunk can be longer than the 14-bit length field
        P = min(mtu - 34, 0x3FFF)
        cfg = G.rand_cfg(rng, mtu=mtu)
        net = G.Net(rng, cfg["mac"])
        k = rng.choice([1, 2, 3, 5, 8])
        size = rng.choice([0, 1, P - 1, P, P + 1, k * P - 1, k * P, k * P + 1, 32767, 32768, rng.randint(0, 32768)])
        size = max(0, min(32768, size))
        if mtu > 9216:
            size = rng.choice([16383, 16384, 16385, 20000, 32767, 32768, 40000, 50000, 65535])
        glob = G.rand_global(rng, icon_size=size)
        # friendly name / hardware id of interesting sizes too
        glob["fname"] = W.fill_stream(rng.choice([0, 2, 64, P - 1, P, P + 1, 2 * P + 1, 3000]), rng.randint(1, 10 ** 6)) \
            if rng.random() < 0.5 else glob["fname"]
        if rng.random() < 0.5:
            glob["hwid"] = W.fill_stream(rng.choice([0, 2, 62, 63, 64, 70]), rng.randint(1, 10 ** 6))
        m = rng.randrange(len(net.mappers))
        bridged = rng.random() < 0.3
        s = H.Scenario("l%d" % i)
        s.iface(0, **H.iface_kw(cfg)).glob(**G.global_kw(glob))
        s.add("OPT sleep=0")
        reqs = []      # (kind, type, offset, seq) aligned with inputs
        quick = set()  # indices of requests sent in the quick-discovery service
        repeats = set()
        changes = {}   # request index -> the platform's properties from then on

        def feed(fr, info):
            s.frame(0, fr)
            reqs.append(info)
        feed(G.f_discover(rng, net, m=m, tos=0, bridged=bridged), ("other",))
        seq = rng.randint(1, 60000)

        def nseq():
            nonlocal seq
            seq = seq + 1 if seq < 0xFFFF else 1
            return seq
        # (a) end-to-end reassembly, as a mapper does it
        for typ in rng.sample([0x0E, 0x11, 0x13], rng.randint(1, 3)):
            d = data_for(glob, typ)
            off = 0
            while True:
                q = nseq()
                feed(W.qlt(net.own, net.mappers[m], q, typ, off, eth_src=net.bridges[m] if bridged else None),
                     ("reasm", typ, off, q))
                ln = min(P, max(0, len(d) - off))
                if len(d) - off <= ln or off + ln > 0xFFFF:
                    break
                off += ln
        # (b) boundary-dense single calls
        prev_call = None
        glob0 = glob
        for _ in range(rng.randint(20, 60)):
            if rng.random() < 0.05:
                # the platform's hardware identifier or friendly name changes while the session goes on (they are read for every
                # request; only the icon is kept per session): shorter, longer, empty
                glob = dict(glob)
                if rng.random() < 0.6:
                    old = G.hwid_effective(glob)
                    nl = rng.choice([0, 2, max(0, len(old) - 2), max(0, len(old) // 2 // 2 * 2), min(64, len(old) + 4), 62, 64])
                    glob["hwid"] = W.fill_stream(nl, rng.randint(1, 10 ** 6)).replace(b"\0", b"\1")
                else:
                    glob["fname"] = W.fill_stream(rng.choice([0, 2, 10, P - 1, P + 1]), rng.randint(1, 10 ** 6))
                kw2 = G.global_kw(glob)
                s.add("GSET hwid=%s fname=%s" % (kw2["hwid"].hex() or "-", kw2["fname"].hex() or "-"))
                changes[len(reqs)] = glob
            typ = rng.choice([0x0E, 0x0E, 0x11, 0x13, 0x13, rng.randint(0, 255)])
            d = data_for(glob, typ)
            S = len(d)
            off = rng.choice([0, 1, S - 1, S, S + 1, 0x7FFF, 0x8000, 0xFFFF, P, 2 * P, S - P, S - P - 1, S - P + 1,
                              rng.randint(0, 0xFFFF)])
            if prev_call is not None and rng.random() < 0.2:
                # exactly where the previous transfer would continue - but for another property
                typ = rng.choice([t for t in (0x0E, 0x11, 0x13) if t != prev_call[0]])
                d = data_for(glob, typ)
                off = prev_call[1]
            off = max(0, min(0xFFFF, off))
            prev_call = (typ, off + min(P, max(0, len(d) - off)))
            q = nseq() if rng.random() < 0.95 else 0
            if rng.random() < 0.2:
                # another station asks while the first one's session is open; its request has its own numbering
                m2 = (m + 1) % len(net.mappers)
                q2 = (q * 7 + 0x1234) & 0xFFFF or 1
                feed(W.qlt(net.own, net.mappers[m2], q2, typ, off, eth_src=net.bridges[m2] if rng.random() < 0.5 else None),
                     ("call", typ, off, q2))
                rep_other = True
            # a request without a sequence number is not answered, whichever service it is sent in
            tos = rng.choice([0, 1, 1]) if q == 0 else 0
            if tos:
                quick.add(len(reqs))
            feed(W.qlt(net.own, net.mappers[m], q, typ, off, eth_src=net.bridges[m] if bridged else None, tos=tos),
                 ("call", typ, off, q))
            if rng.random() < 0.1:
                feed(G.f_probe(rng, net), ("other",))
            if q != 0 and rng.random() < 0.12:
                # the same request once more - as a plain retransmission (same number), under a fresh number, or under the number
                # that a Query or an Emit of the mapper has used in between: every response carries *its* request's number
                how = rng.choice(["same", "fresh", "after-query", "after-emit", "after-emit"])
                q2 = q
                if how == "fresh":
                    q2 = nseq()
                elif how == "after-query":
                    q2 = nseq()
                    feed(G.f_query(rng, net, m, seq=q2, bridged=bridged), ("other",))
                elif how.startswith("after-emit"):
                    q2 = nseq()
                    feed(G.f_emit(rng, net, m, seq=q2, n=1, bridged=bridged)[0], ("other",))
                feed(W.qlt(net.own, net.mappers[m], q2, typ, off, eth_src=net.bridges[m] if bridged else None), ("call", typ, off, q2))
                repeats.add(how)
        globs = [glob0]
        if rng.random() < 0.6:
            # next session: Reset, (usually) a different icon on the platform, Discover, reassemble again
            feed(G.f_reset(rng, net, m=m, tos=0), ("other",))
            g2 = dict(glob)
            if rng.random() < 0.8:
                ns = max(0, min(32768, rng.choice([0, 1, P, P + 1, 3 * P, size // 2 + 1, rng.randint(0, 32768)])))
                g2.update(icon_seed=rng.randint(1, 2 ** 31), icon_size=ns, _icon_cache=None, icon=None)
                s.add("GSET icon=%s" % G.global_kw(g2)["icon"])
            reqs.append(("newglob", len(globs)))
            reqs.pop()          # (GSET is not an input; the switch is keyed on the Reset's position below)
            switch_at = len(reqs)
            globs.append(g2)
            feed(G.f_discover(rng, net, m=m, tos=0, bridged=bridged), ("other",))
            d = data_for(g2, 0x0E)
            off = 0
            while True:
                q = nseq()
                feed(W.qlt(net.own, net.mappers[m], q, 0x0E, off, eth_src=net.bridges[m] if bridged else None),
                     ("reasm2", 0x0E, off, q))
                ln = min(P, max(0, len(d) - off))
                if len(d) - off <= ln or off + ln > 0xFFFF:
                    break
                off += ln
        else:
            switch_at = None
            if glob is not glob0:
                globs.append(glob)        # what the platform holds now (name / hardware id changed during the session)
        mtu_at, mtu2 = None, None
        if rng.random() < 0.35:
            # the link's MTU changes while the interface lives on (jumbo frames switched off or on, a tunnel coming up): what
            # fits in a response is decided by the MTU at the time of the request
            mtu2 = rng.choice([576, 1500, 9000, max(576, mtu - 1), mtu + 1, rng.randint(576, 9216)])
            if mtu2 != mtu:
                s.add("MTU 0 %d %d" % (mtu2, cfg["rxseed"]))
                mtu_at = len(reqs)
                g_now = globs[-1]
                P2 = min(mtu2 - 34, 0x3FFF)
                for typ in rng.sample([0x0E, 0x11, 0x13], rng.randint(1, 3)):
                    d = data_for(g_now, typ)
                    off = 0
                    while True:
                        q = nseq()
                        feed(W.qlt(net.own, net.mappers[m], q, typ, off, eth_src=net.bridges[m] if bridged else None),
                             ("reasm3", typ, off, q))
                        ln = min(P2, max(0, len(d) - off))
                        if len(d) - off <= ln or off + ln > 0xFFFF:
                            break
                        off += ln
        s.meta = dict(reqs=reqs, glob=glob0, mtu=mtu, own=cfg["mac"], globs=globs, switch_at=switch_at, mtu_at=mtu_at, mtu2=mtu2, quick=quick, repeats=sorted(repeats), changes=changes)
        scns.append(s)
    return scns


def make_quick_first(ctx, count):
    """an interface whose first session is an enumerator's quick discovery only (the icon is fetched through that service), ended
    by Resets of both services in some order; the platform's icon changes; a mapper's topology session then reassembles the
    new one"""
    scns = []
    for i in range(count):
        rng = G.rng_for(ctx.seed, "C08q", i)
        mtu = rng.choice([576, 1500, 1500, 9000])
        P = min(mtu - 34, 0x3FFF)
        cfg = G.rand_cfg(rng, mtu=mtu)
        net = G.Net(rng, cfg["mac"])
        glob = G.rand_global(rng, icon_size=rng.choice([1, P, P + 1, 3000, 2 * P + 5]))
        m = rng.randrange(len(net.mappers))
        s = H.Scenario("lq%d" % i)
        s.iface(0, **H.iface_kw(cfg)).glob(**G.global_kw(glob))
        s.add("OPT sleep=0")
        reqs = []
        quick = set()
        seq = rng.randint(1, 50000)

        def feed(fr, info):
            s.frame(0, fr)
            reqs.append(info)
        if rng.random() < 0.6:
            feed(G.f_discover(rng, net, m=m, tos=1), ("other",))
        for off in rng.choice([[0], [0, P], [0, 0], [P]]):
            seq += 1
            feed(W.qlt(net.own, net.mappers[m], seq, 0x0E, off, tos=1), ("other",))
        if rng.random() < 0.3:
            feed(G.f_probe(rng, net), ("other",))
        for t in rng.choice([[1, 0], [1, 1, 0], [0, 1, 0], [1, 0, 0], [1, 0, 1]]):
            feed(G.f_reset(rng, net, m=m if rng.random() < 0.8 else None, tos=t), ("other",))
        g2 = dict(glob)
        g2.update(icon_seed=rng.randint(1, 2 ** 31), icon_size=rng.choice([1, P - 1, 2500, 3 * P]), _icon_cache=None, icon=None)
        s.add("GSET icon=%s" % G.global_kw(g2)["icon"])
        switch_at = len(reqs)
        feed(G.f_discover(rng, net, m=m, tos=0), ("other",))
        d = data_for(g2, 0x0E)
        off = 0
        while True:
            seq += 1
            feed(W.qlt(net.own, net.mappers[m], seq, 0x0E, off), ("reasm2", 0x0E, off, seq))
            ln = min(P, max(0, len(d) - off))
            if len(d) - off <= ln or off + ln > 0xFFFF:
                break
            off += ln
        s.meta = dict(reqs=reqs, glob=glob, mtu=mtu, own=cfg["mac"], globs=[glob, g2], switch_at=switch_at, mtu_at=None, mtu2=None,
                      quick=quick, repeats=[], quick_first=True)
        scns.append(s)
    return scns


def make_session_scenarios(ctx, count):
    """ordinary multi-mapper sessions (Discovers of both services, Emits, Probes, Queries, Resets) with QueryLargeTlv
    requests sprinkled in from whoever is talking; every topology-service request is judged by the same per-call oracle"""
    scns = []
    for i in range(count):
        rng = G.rng_for(ctx.seed, "C08s", i)
        mtu = G.pick_mtu(rng)
        cfg = G.rand_cfg(rng, mtu=mtu)
        net = G.Net(rng, cfg["mac"])
        glob = G.rand_global(rng, icon_size=rng.choice([0, 1, mtu - 34, mtu - 33, 2 * (mtu - 34), 5000, 20000]))
        frames = G.session_history(rng, net, mtu, rng.randint(30, 80), p_mut=0.0, p_noise=0.0, p_misc=0.05, max_emit=2)
        s = H.Scenario("ls%d" % i)
        s.iface(0, **H.iface_kw(cfg)).glob(**G.global_kw(glob))
        s.add("OPT sleep=0")
        reqs = []
        quick = set()
        gaps = 0
        for fr in frames:
            if i % 2 and rng.random() < 0.25:
                s.add("ADV %d" % rng.choice(s.GAPS_MS))
                gaps += 1
            s.frame(0, fr)
            if len(fr) >= 36 and fr[17] == W.OP_QLT and (fr[15] == 0 or (fr[15] == 1 and fr[30:32] == b"\0\0")):
                if fr[15] == 1:
                    quick.add(len(reqs))
                reqs.append(("call", fr[32], struct.unpack(">H", fr[34:36])[0], struct.unpack(">H", fr[30:32])[0]))
            else:
                reqs.append(("other",))
        s.meta = dict(reqs=reqs, glob=glob, mtu=mtu, own=cfg["mac"], clock_gaps=gaps, quick=quick)
        scns.append(s)
    return scns


def monitor(scn, sobj, rep, sf, ck):
    reqs, glob, mtu, own = sobj.meta["reqs"], sobj.meta["glob"], sobj.meta["mtu"], sobj.meta["own"]
    globs, switch_at = sobj.meta.get("globs", [glob]), sobj.meta.get("switch_at")
    calls = 0
    earlier = [glob]      # the values the platform has held since the session began (name / hardware id may change during it)
    reasm = {}
    types = set()
    for idx, inp in enumerate(scn.inputs):
        if idx >= len(reqs) or inp.out is None:
            break
        r = reqs[idx]
        if idx in sobj.meta.get("changes", {}):
            glob = sobj.meta["changes"][idx]
            earlier.append(glob)
            rep.count("name_or_hardware_id_changed_mid_session")
        if switch_at is not None and idx >= switch_at:
            glob = globs[1]
            if idx == switch_at:
                earlier = [glob]          # a new session: whatever was kept of the old one is gone
        if sobj.meta.get("mtu_at") is not None and idx >= sobj.meta["mtu_at"]:
            mtu = sobj.meta["mtu2"]
        if r[0] == "other":
            continue
        _, typ, off, q = r
        d = data_for(glob, typ)
        calls += 1

        def bad(key, msg):
            rep.violation("C08:" + key, "scenario %s input %d: QueryLargeTlv type=%#x offset=%d seq=%d, data size %d, mtu %d: %s"
                          % (scn.sid, idx + 1, typ, off, q, len(d), mtu, msg), replay=sobj.text())
        sends = inp.sends()
        if q == 0:
            rep.count("seq_zero_requests:" + ("quick-discovery" if idx in sobj.meta.get("quick", ()) else "topology-discovery"))
            if inp.out[0] != 0:
                bad("seq-zero-answered", "%d frames sent for sequence number 0" % inp.out[0])
            continue
        if inp.out[0] != 1 or len(sends) != 1:
            bad("frames-per-request", "%d frames sent" % inp.out[0])
            continue
        raw = sends[0][3]
        f = W.decode(raw) if raw else None
        if f is None or len(raw) < 34 or f.opcode != W.OP_QLTRESP:
            bad("not-a-largetlv-response", "frame %s" % (raw.hex()[:80] if raw else None))
            continue
        more, ln, payload = W.qltresp_fields(raw)
        exp_payload, exp_more = qlt_expect(d, off, mtu)
        if typ in (0x11, 0x13) and len(earlier) > 1 and (ln, payload, more) != (len(exp_payload), exp_payload, exp_more):
            # the statement does not say when the platform is asked: a responder may read a property once per session (as it
            # does with the icon) or for every request - the answer is judged against every value the platform has held since
            # the session began, and must be one of them in full
            for g_old in earlier[:-1]:
                p_old, m_old = qlt_expect(data_for(g_old, typ), off, mtu)
                if (ln, payload, more) == (len(p_old), p_old, m_old):
                    exp_payload, exp_more = p_old, m_old
                    rep.count("answers_from_a_value_held_earlier_in_the_session")
                    break
        if f.seq != q:
            bad("sequence-number", "response seq %d" % f.seq)
        if len(raw) > mtu:
            bad("longer-than-mtu", "%d bytes" % len(raw))
        if ln != len(payload):
            bad("length-field-vs-frame", "length field %d, %d payload bytes in frame" % (ln, len(payload)))
        if ln != len(exp_payload):
            bad("payload-length", "length %d expected %d" % (ln, len(exp_payload)))
        elif payload != exp_payload:
            bad("payload-bytes", "payload differs from data[%d:%d]" % (off, off + ln))
        if more != exp_more:
            bad("more-flag", "more=%s expected %s" % (more, exp_more))
        types.add("known" if typ in (0x0E, 0x11, 0x13) else "unknown")
        if r[0] == "reasm":
            reasm.setdefault(typ, []).append((off, payload, more))
        elif r[0] == "reasm2":
            reasm.setdefault("second-session-icon", []).append((off, payload, more))
        elif r[0] == "reasm3":
            reasm.setdefault(("after-mtu-change", typ), []).append((off, payload, more))
        if ln > 0:
            rep.nontrivial((mtu, typ, len(d), off))
    for typ, chunks in reasm.items():
        if isinstance(typ, tuple):
            rep.count("reassemblies_after_mtu_change")
            typ = typ[1]
            d = data_for(globs[-1], typ)
        else:
            d = data_for(globs[-1], 0x0E) if typ == "second-session-icon" else data_for(globs[0], typ)
        if typ == "second-session-icon":
            rep.count("second_session_reassemblies")
            typ = 0x0E
        got = b"".join(c[1] for c in chunks)
        ok = got == d and not chunks[-1][2] and all(c[2] for c in chunks[:-1])
        if not ok and typ in (0x11, 0x13) and sobj.meta.get("changes"):
            # the walk was laid out for the value the platform holds now; a responder that read the property earlier in the session
            # answers from that value (every single answer has been judged above against all values held) - its chunks need not
            # line up with this walk
            rep.count("walks_not_judged_as_a_whole_after_a_change_of_the_property")
            continue
        rep.count("reassemblies")
        if len(chunks) >= 3:
            rep.count("reassemblies_3plus_chunks")
        if not ok:
            rep.violation("C08:reassembly", "scenario %s: mapper loop over type %#x (size %d, mtu %d) reassembled %d bytes in %d "
                          "chunks; equal=%s more-flags=%s" % (scn.sid, typ, len(d), mtu, len(got), len(chunks), got == d,
                                                              [c[2] for c in chunks]), replay=sobj.text())
    if sobj.meta.get("quick_first") and calls:
        rep.count("icon_reassembled_after_a_quick_discovery_only_session")
    for how in sobj.meta.get("repeats", ()):
        rep.count("request_repeated:" + how)
    rep.evaluations += calls
    rep.count("calls_judged", calls)
    for t in types:
        rep.count("types:" + t)
    if calls:
        for g in globs:
            if g["fname"][-2:] == b"\0\0":
                rep.count("content:friendly-name-ends-in-a-zero-word")
            ib = G.icon_bytes(g)
            if ib and ib[-1] == 0:
                rep.count("content:icon-ends-in-a-zero-byte")
    if calls and len(rep.samples) < 2:
        rep.sample(dict(scenario=scn.sid, mtu=mtu, icon_size=len(G.icon_bytes(glob)), fname_size=len(glob["fname"]),
                        hwid_size=len(G.hwid_effective(glob)), requests=[list(map(str, r)) for r in reqs[1:8]]))


def run(ctx):
    rep = ctx.report
    rep.rule = ("(a) scenarios with random contents: mapper reassembly loops and boundary-dense single calls over all property "
                "types, judged per call against (payload = data[O:O+L], L = min(mtu-34, max(0,S-O)), more iff S-O > L); (b) "
                "online-oracle sweeps over (size, offset) grids per MTU; non-trivial = distinct (mtu, type, size, offset) "
                "with a non-empty payload")
    rep.assumptions = ["the icon is changed only across Resets (it is cached per session by design)",
                       "requests are judged for the topology-discovery service (in the quick-discovery service only: sequence number 0 is not answered); sizes above 32768 are outside the quantifier"]
    binary, plainf = H.build_many(ctx.work, [dict(flavour="asan"), dict(flavour="plain")])
    scns = make_scenarios(ctx, ctx.n(600, 15000)) + make_session_scenarios(ctx, ctx.n(600, 15000)) + make_quick_first(ctx, ctx.n(100, 2000))
    run_monitored(ctx, binary, scns, monitor, tag="qlt")
    # the same requests without red zones: a wrong length/flag decision that makes the sanitizer kill the child
    # before anything is sent becomes an observable wrong response here
    run_monitored(ctx, plainf, scns, monitor, tag="qlt-plain")
    c = rep.counters
    rep.need("calls_judged", c.get("calls_judged", 0), 40000)
    rep.need("reassemblies", c.get("reassemblies", 0), 1200)
    rep.need("reassemblies_3plus_chunks", c.get("reassemblies_3plus_chunks", 0), 50)
    rep.need("types:unknown", c.get("types:unknown", 0), 100)
    rep.need("name_or_hardware_id_changed_mid_session", c.get("name_or_hardware_id_changed_mid_session", 0), 200)
    rep.need("icon_reassembled_after_a_quick_discovery_only_session", c.get("icon_reassembled_after_a_quick_discovery_only_session", 0), 100)
    for how in ("same", "fresh", "after-query", "after-emit"):
        rep.need("request_repeated:" + how, c.get("request_repeated:" + how, 0), 50)
    rep.need("seq_zero_requests:quick-discovery", c.get("seq_zero_requests:quick-discovery", 0), 100)
    rep.need("seq_zero_requests:topology-discovery", c.get("seq_zero_requests:topology-discovery", 0), 100)
    rep.need("friendly-name-ends-in-a-zero-word", c.get("content:friendly-name-ends-in-a-zero-word", 0), 30)
    rep.need("icon-ends-in-a-zero-byte", c.get("content:icon-ends-in-a-zero-byte", 0), 10)
    rep.need("second_session_reassemblies", c.get("second_session_reassemblies", 0), 300)
    rep.need("reassemblies_after_mtu_change", c.get("reassemblies_after_mtu_change", 0), 200)
    if ctx.quick:
        sw = H.build(ctx.work, "asan", program="vh_sweep", esp32=False)
        args = []
        for mtu in (576, 577, 1500, 9216):
            for typ in (0x0E, 0x11):
                for lo in range(0, 32769, 4100):
                    args.append([mtu, lo, min(32769, lo + 4100), 1, 1, typ])
        res = sweeps.run_sweep(ctx, "c08", args, "C08", binary=sw, crash_is_inconclusive=False)
        crashed = [a for (a, rc, out, err) in res if rc != 0]
        if crashed:
            plain_sw = H.build(ctx.work, "plain", program="vh_sweep", esp32=False)
            sweeps.run_sweep(ctx, "c08", crashed, "C08", binary=plain_sw)
    else:
        plain = H.build(ctx.work, "plain", program="vh_sweep", esp32=False)
        # exhaustive size x offset for MTU 576 (2.1e9 calls), 16-wide
        args = [[576, lo, min(32769, lo + 2049), 0, 0, 0x0E] for lo in range(0, 32769, 2049)]
        sweeps.run_sweep(ctx, "c08", args, "C08", binary=plain, timeout=6 * 3600)
        # and for MTU 1500 (another 2.1e9 calls)
        args = [[1500, lo, min(32769, lo + 2049), 0, 0, 0x0E] for lo in range(0, 32769, 2049)]
        sweeps.run_sweep(ctx, "c08", args, "C08", binary=plain, timeout=6 * 3600)
        rep.exhaustive = True
        sw = H.build(ctx.work, "asan", program="vh_sweep", esp32=False)
        args = []
        for mtu in (1500, 9216, 577):
            for lo in range(0, 32769, 2049):
                args.append([mtu, lo, min(32769, lo + 2049), 1, 0, 0x0E])
        for mtu in (576, 1500):
            for lo in range(0, 32769, 2049):
                args.append([mtu, lo, min(32769, lo + 2049), 1, 1, 0x11])
        sweeps.run_sweep(ctx, "c08", args, "C08", binary=sw, timeout=6 * 3600)
    rep.need("sweep_calls", c.get("sweep_c08_calls", 0), 100000)
    rep.need("clock_gaps_between_frames", rep.counters.get("clock_gaps_between_frames", 0), 200)
