"""C17 - interfaces are isolated from each other, also when served concurrently."""
import os
import re
import subprocess
from concurrent.futures import ThreadPoolExecutor

from .. import gen as G
from .. import harness as H
from .. import wire as W
from ..runner import run_monitored


def two_histories(rng, flen):
    cfgs = [G.rand_cfg(rng), G.rand_cfg(rng)]
    r = rng.random()
    if r < 0.15:
        cfgs[1]["mac"] = cfgs[0]["mac"]            # bond slaves, VLAN / macvlan sub-interfaces, a cloned address: two interfaces, one address
    elif r < 0.3:
        cfgs[1]["mac"] = G.related_mac(rng, cfgs[0]["mac"])      # consecutive addresses of a multi-port adapter
    if rng.random() < 0.5:
        cfgs[1]["mtu"] = cfgs[0]["mtu"]            # same-size buffers are recycled between the interfaces
    for c in cfgs:
        if rng.random() < 0.3:                     # an interface without IPv4/IPv6/speed information etc.
            for bit in range(2, 12):
                if rng.random() < 0.35:
                    c["fail"] |= 1 << bit
    hs = []
    shared = G.Net(rng, cfgs[0]["mac"])
    same_lan = rng.random() < 0.6
    for c in cfgs:
        net = G.Net(rng, c["mac"])
        if same_lan:                         # both NICs on one LAN: the same mappers and neighbours reach both
            net.mappers, net.bridges, net.strangers = shared.mappers, shared.bridges, shared.strangers
        h = G.session_history(rng, net, c["mtu"], flen, p_mut=0.1, p_noise=0.03, max_emit=2)
        if same_lan:
            # the same stations probe both interfaces (identical Ethernet/real sources), then the mapper asks
            extra = []
            for s in shared.strangers[:3]:
                extra.append(W.probe(c["mac"], s, c["mac"], s, train=False))
            extra.append(G.f_query(rng, net, 0))
            pos = rng.randrange(len(h) + 1)
            h = h[:pos] + [G.f_discover(rng, net, m=0, tos=0)] + extra + h[pos:]
        if rng.random() < 0.5:
            # the host's other interface is a station like any other: its emissions reach this interface (real source = the
            # sibling's address) and are observations to be reported
            sib = cfgs[1 - len(hs)]["mac"]
            pos = rng.randrange(len(h) + 1)
            h = h[:pos] + [G.f_discover(rng, net, m=0, tos=0), W.probe(c["mac"], sib, c["mac"], sib, train=rng.random() < 0.5),
                           W.probe(c["mac"], net.strangers[0], c["mac"], sib), G.f_query(rng, net, 0)] + h[pos:]
        hs.append(h)
    return cfgs, hs


def make_sequential(ctx, npairs, nint=3):
    """lists ordered so that a pair's interleavings and solo runs land in the same shard"""
    npairs -= npairs % 16
    groups = [[] for _ in range(nint + 2)]
    for i in range(npairs):
        rng = G.rng_for(ctx.seed, "C17s", i)
        cfgs, hs = two_histories(rng, rng.randint(15, 50))
        glob = G.rand_global(rng, icon_size=rng.choice([0, 700, 3000]))

        # one interface's link goes down for a stretch of *its own* history (every transmit on it is refused) and comes back;
        # the other interface must not notice, and each one's trace is still the trace its history (with its own outage)
        # produces alone
        outage = {}
        if i % 8 == 7:
            for t in rng.sample([0, 1], rng.choice([1, 1, 2])):
                k0 = rng.randrange(len(hs[t]))
                outage[t] = (k0, k0 + rng.choice([1, 3, 8, 1000]))

        def mk(sid, order, kind):
            s = H.Scenario(sid, meta=dict(pair=i, kind=kind, order=order, same_mac=cfgs[0]["mac"] == cfgs[1]["mac"], outage=bool(outage)))
            s.iface(0, **H.iface_kw(cfgs[0])).iface(1, **H.iface_kw(cfgs[1])).glob(**G.global_kw(glob))
            s.add("OPT sleep=1")
            pos = [0, 0]
            for t in order:
                if t in outage and pos[t] == outage[t][0]:
                    s.add("SET %d txdown=1" % t)
                if t in outage and pos[t] == outage[t][1]:
                    s.add("SET %d txdown=0" % t)
                s.frame(t, hs[t][pos[t]])
                pos[t] += 1
            return s
        for k in range(nint):
            order = [0] * len(hs[0]) + [1] * len(hs[1])
            style = k % 3
            if style == 0:
                rng.shuffle(order)
            elif style == 1:      # strict alternation, then the rest
                order = [t for pair in zip([0] * len(hs[0]), [1] * len(hs[1])) for t in pair]
                order += [0] * (len(hs[0]) - order.count(0)) + [1] * (len(hs[1]) - order.count(1))
            else:                 # bursts
                order = []
                rem = [len(hs[0]), len(hs[1])]
                while rem[0] or rem[1]:
                    t = rng.randrange(2)
                    n = min(rem[t], rng.randint(1, 8))
                    order += [t] * n
                    rem[t] -= n
            groups[k].append(mk("x%d_%d" % (i, k), order, "inter"))
        groups[nint].append(mk("s%d_0" % i, [0] * len(hs[0]), "solo0"))
        groups[nint + 1].append(mk("s%d_1" % i, [1] * len(hs[1]), "solo1"))
    return [s for g in groups for s in g]


def per_iface_trace(scn):
    tr = {0: [], 1: []}
    for inp in scn.inputs:
        if inp.iface in tr:
            tr[inp.iface].append(tuple((e[0], e[3]) if e[0] == "T" else (e[0], e[1]) for e in inp.ev if e[0] in ("T", "Z")))
    return tr


def seq_monitor(scn, sobj, rep, sf, ck):
    meta = sobj.meta
    st = getattr(rep, "_c17", None)
    if st is None:
        st = rep._c17 = {}
    ent = st.setdefault(meta["pair"], dict(inter=[], solo={}))
    tr = per_iface_trace(scn)
    if not scn.clean:
        rep.count("sequential_not_clean")
        return
    if meta["kind"] == "inter":
        ent["inter"].append((scn.sid, tr, sobj))
        if meta.get("same_mac"):
            rep.count("interleavings_of_two_interfaces_with_one_address")
        if meta.get("outage"):
            rep.count("interleavings_with_one_interface_link_down_for_a_while")
    else:
        t = 0 if meta["kind"] == "solo0" else 1
        ent["solo"][t] = tr[t]
    if len(ent["solo"]) == 2:
        for sid, itr, so in ent["inter"]:
            rep.evaluations += 1
            rep.count("interleavings_checked")
            for t in (0, 1):
                if itr[t] != ent["solo"][t]:
                    j = next((k for k in range(min(len(itr[t]), len(ent["solo"][t]))) if itr[t][k] != ent["solo"][t][k]), -1)
                    rep.violation("C17:sequential-interleaving-changes-trace",
                                  "scenario %s: interface %d's trace differs from the trace its history produces alone, first at its "
                                  "input %d" % (sid, t, j + 1), replay=so.text())
                    break
            else:
                sent = sum(len(x) for x in itr[0]) + sum(len(x) for x in itr[1])
                if sent >= 6:
                    rep.nontrivial((sid, sent))
                if len(rep.samples) < 2:
                    rep.sample(dict(scenario=sid, interleaving="".join(str(t) for t in so.meta["order"])[:80],
                                    port_events=sent, verdict="both traces equal their solo traces"))
        ent["inter"] = []


def thread_input(rng, flen):
    cfgs, hs = two_histories(rng, flen)
    for c in cfgs:
        c["mtu"] = min(c["mtu"], 4096)
    lines = []
    for t in (0, 1):
        c = cfgs[t]
        lines.append("IFACE %d mtu=%d mac=%s flags=%d iftype=%d speed=%d wifi=%d rssi=%d rate=%d mode=%d" % (
            t, c["mtu"], c["mac"].hex(), c["flags"], c["iftype"], c["speed"], c["wifi"], c.get("rssi", 0), c.get("rate", 0), c.get("mode", 0)))
    for t in (0, 1):
        own = cfgs[t]["mac"]
        mp = G.rand_mac(rng)
        extra = [W.discover(mp, 1, 1, [], tos=0)] + [W.qlt(own, mp, 5 + k, typ, off) for k, (typ, off) in
                                                       enumerate([(0x13, 0), (0x11, 0), (0x13, 4), (0x0E, 0), (0x13, 0)])]
        pos = rng.randrange(len(hs[t]) + 1)
        for fr in hs[t][:pos] + extra + hs[t][pos:]:
            lines.append("H%d %s" % (t, fr[:cfgs[t]["mtu"]].hex()))
    return "\n".join(lines) + "\n"


def run_threads(ctx, nproc, rounds):
    rep = ctx.report
    binary = H.build(ctx.work, "tsan", program="vh_threads", esp32=False, extra_flags=["-DVP_THREADS", "-pthread"])
    d = ctx.work.sub("threads")
    env = dict(os.environ)
    env.update(H.SAN_ENV)

    def one(i):
        rng = G.rng_for(ctx.seed, "C17t", i)
        path = os.path.join(d, "in%d.txt" % i)
        with open(path, "w") as f:
            f.write(thread_input(rng, rng.randint(10, 40)))
        # a generous wall-clock watchdog (a process takes seconds); its firing is inconclusive unless the very same process
        # does not finish a second time either - the core has no locks, so a reproducible hang is a loop over corrupted state
        for attempt in (1, 2):
            try:
                p = subprocess.run([binary, path, str(rounds), str(ctx.seed * 1000 + i)], stdout=subprocess.PIPE, stderr=subprocess.PIPE,
                                   text=True, env=env, timeout=300)
                return i, p.returncode, p.stdout, p.stderr
            except subprocess.TimeoutExpired as e:
                last = e
        err = last.stderr if isinstance(last.stderr, str) else (last.stderr or b"").decode("latin1")
        out = last.stdout if isinstance(last.stdout, str) else (last.stdout or b"").decode("latin1")
        return i, "hang", out, err

    with ThreadPoolExecutor(max_workers=H.NCPU) as ex:
        results = list(ex.map(one, range(nproc)))
    races = {}
    for i, rc, out, err in results:
        if rc == "hang":
            rep.violation("C17:threads-do-not-finish", "vh_threads process %d (two threads, one interface each, ThreadSanitizer build) did "
                          "not finish within 300 s, twice in a row; it normally takes seconds" % i,
                          replay="# vh_threads input:\n" + "".join("# " + ln + "\n" for ln in open(os.path.join(d, "in%d.txt" % i)).read().split("\n")[:400]))
        stats = dict(re.findall(r"STAT (\S+) (\d+)", out))
        rep.count("thread_rounds", int(stats.get("rounds", 0)))
        rep.evaluations += int(stats.get("rounds", 0))
        rep.count("rounds_first_frames_overlapped", int(stats.get("rounds_first_frames_overlapped", 0)))
        rep.distinct_extra += int(stats.get("rounds_first_frames_overlapped", 0))
        rep.count("rounds_forced_into_state_creation", int(stats.get("rounds_forced_into_state_creation", 0)))
        rep.count("contexts_with_state_record_created_twice", int(stats.get("contexts_with_state_record_created_twice", 0)))
        nd = int(stats.get("trace_diffs", 0))
        rep.count("thread_trace_diffs", nd)
        for m in re.finditer(r"DIFF round=(\d+) thread=(\d) class=(\S+)(.*)", out):
            rep.violation("C17:concurrent-trace-differs:%s" % m.group(3),
                          "vh_threads process %d round %s thread %s: trace differs from the solo trace (%s%s)"
                          % (i, m.group(1), m.group(2), m.group(3), m.group(4)),
                          replay="# vh_threads input:\n" + "".join("# " + ln + "\n" for ln in open(os.path.join(d, "in%d.txt" % i)).read().split("\n")[:400]))
        for key, txt in H.sanitizer_findings(err):
            if key.startswith("tsan:") and ":noncore:" not in key:
                # de-duplicate by the core function pair, ignore read/write flavour
                parts = key.split(":")
                k2 = "tsan:%s:%s" % (parts[1], parts[-1])
                races.setdefault(k2, txt)
                rep.count("tsan_reports")
            elif key.startswith("tsan:"):
                rep.count("tsan_reports_outside_core")
        if rc not in (0, 96, "hang") and "ThreadSanitizer" not in err:
            rep.inconclusive.append("vh_threads process %d exited %d: %s" % (i, rc, err[-300:]))
    if results:
        i0, rc0, out0, err0 = results[0]
        rep.sample(dict(threads_process=i0, stats=dict(re.findall(r"STAT (\S+) (\d+)", out0)),
                        first_tsan_report=(err0.split("==================")[1][:600] if "==================" in err0 else None)))
    for k2, txt in races.items():
        rep.violation(k2, "ThreadSanitizer, two threads serving one interface each:\n%s" % txt[:2500])
    if not ctx.quick:
        # second detector: helgrind on the plain build (fewer rounds; it is two orders of magnitude slower)
        plain = H.build(ctx.work, "plain", program="vh_threads", esp32=False, extra_flags=["-DVP_THREADS", "-pthread"],
                        name="vh_threads-plain")

        def hg(i):
            path = os.path.join(d, "in%d.txt" % i)
            p = subprocess.run(["valgrind", "--tool=helgrind", "-q", "--history-level=approx", plain, path, "12", str(ctx.seed + i)],
                               stdout=subprocess.PIPE, stderr=subprocess.PIPE, text=True, timeout=1800)
            return i, p.returncode, p.stdout, p.stderr
        with ThreadPoolExecutor(max_workers=H.NCPU) as ex:
            hres = list(ex.map(hg, range(min(nproc, 16))))
        hkeys = {}
        for i, rc, out, err in hres:
            rep.count("helgrind_processes")
            for key, txt in H.helgrind_findings(err):
                hkeys.setdefault(key, txt)
                rep.count("helgrind_reports")
        for key, txt in hkeys.items():
            # the same recorded race, seen by a second detector, keeps the recorded key
            k2 = "tsan:data-race:" + key.split(":", 2)[2] if key.endswith("lltd_state_for_iface<parseFrame") else key
            rep.violation(k2, "helgrind, two threads serving one interface each:\n%s" % txt[:2000])
    rep.need("thread_rounds", rep.counters.get("thread_rounds", 0), nproc * rounds)
    rep.need("rounds_first_frames_overlapped", rep.counters.get("rounds_first_frames_overlapped", 0), 20)
    rep.need("rounds_forced_into_state_creation", rep.counters.get("rounds_forced_into_state_creation", 0), nproc * rounds // 2)


def run(ctx):
    rep = ctx.report
    rep.rule = ("sequential clause: pairs of histories on two interface contexts, three interleavings each (shuffle, alternation, "
                "bursts) in one process, each interface's trace compared with its history run alone in another process; concurrent "
                "clause: ThreadSanitizer build, per round two fresh contexts and two threads released by a barrier into their first "
                "frame, then free-running with seeded yields, per-thread trace compared with the solo trace; distinct_nontrivial = "
                "interleavings with >= 6 port events plus rounds in which the two first-frame calls overlapped in time")
    rep.assumptions = ["TSan's happens-before verdict covers the synchronisation it understands and the code the threads executed",
                       "the port is lock-free with thread-local monitor state, so the monitor is not the race"]
    binary, plain = H.build_many(ctx.work, [dict(flavour="asan"), dict(flavour="plain")])
    scns = make_sequential(ctx, ctx.n(608, 20000))
    run_monitored(ctx, binary, scns, seq_monitor, tag="seq", nshards=16)
    # the same pairs on the plain build with fresh allocations left as the allocator hands them out: bytes that one
    # interface's response left in a recycled block must not show up in the other interface's frames
    run_monitored(ctx, plain, scns, seq_monitor, tag="seq-plain", nshards=16, env_extra={"VH_FILL": "-1", "VH_FAR_CTX": "1"})
    rep.need("interleavings_checked", rep.counters.get("interleavings_checked", 0), ctx.n(3400, 116000))
    rep.need("interleavings_of_two_interfaces_with_one_address", rep.counters.get("interleavings_of_two_interfaces_with_one_address", 0), 100)
    rep.need("interleavings_with_one_interface_link_down_for_a_while", rep.counters.get("interleavings_with_one_interface_link_down_for_a_while", 0), 100)
    run_threads(ctx, ctx.n(8, 64), ctx.n(300, 5000))
