#!/bin/bash
# Apply each behaviour-preserving refactoring to the scratch worktree and run every quick check: expected silent (rc 0),
# except B8 + C17 (same recorded race under a renamed function).
W=${VERIF_SCRATCH:-/tmp/mw}
[ -d $W ] || git -C /repo worktree add -q --detach $W HEAD
for p in $(ls /verif/seeded/benign/B*.diff | grep -v pre-); do
  (cd $W && git reset -q --hard && git clean -fdq && git checkout -q --detach $(git -C /repo rev-parse HEAD) && { git apply $p 2>/dev/null || git apply --3way $p; } && git reset -q) || { echo "$p does not apply"; continue; }
  echo "### $(basename $p)"
  (cd /verif && tools/ben_run.sh $W "$@")
done
(cd $W && git reset -q --hard && git clean -fdq)
