#!/bin/bash
# usage: tools/mutcheck.sh <patch-or-sed-script> <ID> [tier]   -- apply a change to /repo, run a check, restore /repo
# The first argument is either a unified diff file or "sed:<file>:<expr>".
set -u
chg="$1"; id="$2"; tier="${3:-quick}"
cd /repo || exit 9
if ! git diff --quiet; then echo "repo dirty, refusing"; exit 9; fi
if [[ "$chg" == sed:* ]]; then
  IFS=: read -r _ file expr <<<"$chg"
  sed -i -E "$expr" "$file"
else
  git apply "$chg" || { echo "patch failed"; exit 9; }
fi
git diff --stat | tail -1
if git diff --quiet; then echo "NO CHANGE APPLIED"; exit 9; fi
make clean-tests test >/tmp/mut_test.log 2>&1 && echo "baseline tests: pass" || echo "baseline tests: FAIL"
cd /verif && python3 check.py "$id" --tier "$tier" > /tmp/mut_check.log 2>&1; rc=$?
grep -E "^(VIOLATION|KNOWN-FINDING|INCONCLUSIVE|C[0-9]+ )" /tmp/mut_check.log | head -8
echo "check rc=$rc"
git -C /repo checkout -- . 
exit 0
