#!/bin/bash
# usage: tools/run_all.sh <tier> [ids...]  -- run checks one after another, print rc and wall time
tier="${1:-quick}"; shift
ids="$@"; [ -z "$ids" ] && ids="C01 C02 C03 C04 C05 C06 C07 C08 C09 C10 C11 C12 C13 C14 C15 C16 C17 C18 C19 C20"
for id in $ids; do
  t0=$(date +%s)
  python3 check.py $id --tier $tier > /tmp/runall_$id.log 2>&1; rc=$?
  t1=$(date +%s)
  echo "$id tier=$tier seed=${VERIF_SEED:-1} rc=$rc wall=$((t1-t0))s :: $(grep -E "^C[0-9]+ (quick|thorough)" /tmp/runall_$id.log | tail -1)"
  grep -E "^(VIOLATION|INCONCLUSIVE)" /tmp/runall_$id.log | head -5
done
