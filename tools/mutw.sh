#!/bin/bash
# usage: tools/mutw.sh <patch-file | sed:<file>:<expr>> <ID>... [-- tier]
# Like mutcheck.sh but works on the scratch worktree /tmp/mw (VERIF_REPO), leaving /repo alone.
set -u
W=${VERIF_SCRATCH:-/tmp/mw}
chg="$1"; shift
tier=quick
ids=()
for a in "$@"; do case "$a" in quick|thorough) tier=$a;; *) ids+=("$a");; esac; done
cd $W || exit 9
git checkout -q -- . ; git checkout -q --detach $(git -C /repo rev-parse HEAD) 2>/dev/null
if [[ "$chg" == sed:* ]]; then
  IFS=: read -r _ file expr <<<"$chg"
  sed -i -E "$expr" "$file"
else
  git apply "$chg" || { echo "patch failed"; exit 9; }
fi
if git diff --quiet; then echo "NO CHANGE APPLIED"; exit 9; fi
git diff --stat | tail -1
make clean-tests test >/tmp/mutw_test.log 2>&1 && echo "baseline tests: pass" || echo "baseline tests: FAIL"
for id in "${ids[@]}"; do
  (cd /verif && VERIF_REPO=$W python3 check.py "$id" --tier "$tier" > /tmp/mutw_check_$id.log 2>&1; rc=$?
   echo "== $id rc=$rc"; grep -E "^(VIOLATION|INCONCLUSIVE|  key=|C[0-9]+ (quick|thorough))" /tmp/mutw_check_$id.log | head -8)
done
cd $W && git checkout -q -- . && make clean-tests >/dev/null 2>&1
