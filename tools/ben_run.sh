#!/bin/bash
# usage: tools/ben_run.sh <repo-dir> [ids...]  -- run quick checks against another tree (VERIF_REPO), print non-zero results
d="$1"; shift
ids="$@"; [ -z "$ids" ] && ids="C01 C02 C03 C04 C05 C06 C07 C08 C09 C10 C11 C12 C13 C14 C15 C16 C17 C18 C19 C20"
for id in $ids; do
  VERIF_REPO=$d python3 check.py $id --tier quick > /tmp/ben_$$_$id.log 2>&1; rc=$?
  if [ $rc -ne 0 ]; then echo "== $id rc=$rc"; grep -E "^(VIOLATION|INCONCLUSIVE|  key=)" /tmp/ben_$$_$id.log | head -6 | cut -c1-250; fi
done
echo "done $d"
