#!/bin/bash
# usage: tools/seed_confirm.sh <name> <mutdir containing patch.diff run.sh ...> <check IDs...>
# Confirms a seeded change in the scratch worktree /tmp/mw: demo passes without / fails with the change,
# pinned tests pass with it; then runs the given checks against it (VERIF_REPO) and reports.
set -u
name="$1"; mdir="$2"; shift 2
W=${VERIF_SCRATCH:-/tmp/mw}
cd $W || exit 9
git reset -q --hard; git clean -fdq; git checkout -q --detach $(git -C /repo rev-parse HEAD)
rm -rf $W/_mut; cp -r "$mdir" $W/_mut
( cd $W/_mut && timeout 600 bash ./run.sh >/tmp/seed_demo_orig.log 2>&1 ); d0=$?
git apply $W/_mut/patch.diff 2>/dev/null || { git apply --3way $W/_mut/patch.diff >/dev/null 2>&1 && git reset -q; } || { echo "PATCH DOES NOT APPLY"; exit 9; }
make clean-tests test >/tmp/seed_test.log 2>&1; t=$?
( cd $W/_mut && timeout 600 bash ./run.sh >/tmp/seed_demo_mut.log 2>&1 ); d1=$?
echo "demo on original: exit $d0 | pinned tests with change: exit $t | demo with change: exit $d1"
res=""
for id in "$@"; do
  (cd /verif && VERIF_REPO=$W python3 check.py "$id" --tier quick > /tmp/seed_check_$id.log 2>&1); rc=$?
  keys=$(grep -E "^  key=" /tmp/seed_check_$id.log | sed 's/^  key=//' | cut -d' ' -f1 | head -4 | tr '\n' ' ')
  echo "== $id rc=$rc $keys"
  res="$res $id:rc=$rc"
done
echo "RESULT $name demo_orig=$d0 tests=$t demo_mut=$d1 $res"
git reset -q --hard; git clean -fdq; make clean-tests >/dev/null 2>&1
