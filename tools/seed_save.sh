#!/bin/bash
# usage: tools/seed_save.sh <name> <mutdir> <property> "<needs>" "<result line>"
name="$1"; mdir="$2"; prop="$3"; needs="$4"; result="$5"
[ -n "$name" ] && [ -d "$mdir" ] || { echo "usage: seed_save.sh <name> <mutdir> <property> <needs> <result>"; exit 2; }
d=/verif/seeded/$name
mkdir -p $d
cp $mdir/patch.diff $d/
for f in demo.c run.sh notes.md demo.sh; do [ -f $mdir/$f ] && cp $mdir/$f $d/; done
# any other small helper files
find $mdir -maxdepth 1 -type f -size -200k ! -name PROPERTY.txt ! -name '*.o' ! -perm -u+x -exec cp -n {} $d/ \; 2>/dev/null
python3 - "$name" "$prop" "$needs" "$result" <<'PY'
import json, sys
name, prop, needs, result = sys.argv[1:5]
json.dump(dict(id=name, breaks_property=prop, needs_to_manifest=needs, source="fresh sub-agent given only the property text and a scratch worktree",
               confirmed=result, how_confirmed="tools/seed_confirm.sh: demo exits 0 on the unchanged tree, non-zero with the change; make test passes with the change; then the listed checks were run against the changed tree"),
          open('/verif/seeded/%s/meta.json' % name, 'w'), indent=1)
PY
ls $d
