#!/bin/bash
# Re-run every seeded change against the check of the property it breaks (scratch worktree /tmp/mw, VERIF_REPO).
# usage: tools/seed_regress.sh [name...]      expected: rc=1 for every line (C02-b is judged by C01 and C08, C06-e by C17)
W=${VERIF_SCRATCH:-/tmp/mw}
[ -d $W ] || git -C /repo worktree add -q --detach $W HEAD
names="$@"; [ -z "$names" ] && names=$(ls /verif/seeded | grep -v -e INDEX -e benign)
fail=0
for n in $names; do
  d=/verif/seeded/$n
  prop=$(python3 -c "import json;print(json.load(open('$d/meta.json'))['breaks_property'])")
  checks=$prop; [ "$n" = "C02-b" ] && checks="C01 C08"; [ "$n" = "C02-e" ] && checks="C01 C08"; [ "$n" = "C06-e" ] && checks="C17"; [ "$n" = "C10-g" ] && checks="C18"; [ "$n" = "C08-h" ] && checks="C17"; [ "$n" = "C15-h" ] && checks="C17"; [ "$n" = "C02-i" ] && checks="C17"; [ "$n" = "C03-k" ] && checks="C17"; [ "$n" = "C08-k" ] && checks="C18"; [ "$n" = "C09-l" ] && checks="C18"; [ "$n" = "C07-m" ] && checks="C18"; [ "$n" = "C02-p" ] && checks="C01"
  (cd $W && git reset -q --hard && git clean -fdq && git checkout -q --detach $(git -C /repo rev-parse HEAD) && { git apply $d/patch.diff 2>/dev/null || git apply --3way $d/patch.diff; } && git reset -q) || { echo "$n: patch does not apply"; fail=1; continue; }
  for c in $checks; do
    (cd /verif && VERIF_REPO=$W python3 check.py $c --tier quick > /tmp/seedreg_$n_$c.log 2>&1); rc=$?
    keys=$(grep -E "^  key=" /tmp/seedreg_$n_$c.log | sed 's/^  key=//' | cut -d' ' -f1 | head -2 | tr '\n' ' ')
    echo "$n $c rc=$rc $keys"
    want=1; [ "$n" = "C06-d" ] && want=0; [ "$n" = "C03-l" ] && want=0; [ "$n" = "C05-p" ] && want=0; [ "$n" = "C18-p" ] && want=0     # C05-p, C18-p: open gaps of round 16, not caught yet (DESIGN section 9)
    :     # C06-d is outside the stated domain (see its meta.json): silence expected
    [ $rc -ne $want ] && { fail=1; echo "  UNEXPECTED: $n $c rc=$rc (expected $want)"; }
  done
done
(cd $W && git reset -q --hard && git clean -fdq)
exit $fail
