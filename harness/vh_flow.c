/*
 * Literal transcription of os/darwin/daemon/darwin-main.c:289-404 (frame
 * branch) and :270-282 (timeout branch), and of the Linux daemons' loop body,
 * calling the real core functions.  Harness code - the only place where the
 * machinery models something instead of running it (DESIGN.md 2.3).
 */
#include "vh_flow.h"

#include <stdlib.h>
#include <string.h>

#include "lltdBlock.h"
#include "lltdEndian.h"

static void send_hello_cb(void *network_interface) {
    vp_iface *f = (vp_iface *)network_interface;
    int valid = 0, incomplete = 0;
    if (f->table) {
        for (int i = 0; i < SESSION_TABLE_MAX_ENTRIES; i++) {
            if (f->table->entries[i].valid) {
                valid++;
                if (!f->table->entries[i].complete) incomplete++;
            }
        }
    }
    vp_logf("H %d %llu %d %d %d\n", f->idx, (unsigned long long)vp_now_ms, valid, incomplete, f->in_tick);
    vp_now_ms += (uint64_t)vp_opt_hello_cost;      /* transmitting the Hello takes time */
}

int vh_flow_noensure = 0;      /* OPT noensure=1: the daemon lives with what its start-up got (a constructor that failed left NULL) */

void vh_flow_ensure(vp_iface *f) {
    if (vh_flow_noensure) return;
    if (!f->mapping) f->mapping = init_automata_mapping();
    if (!f->session) f->session = init_automata_session();
    if (!f->enumeration) f->enumeration = init_automata_enumeration();
    if (!f->table) f->table = session_table_create();
}

static void free_autom(automata *a) {
    if (!a) return;
    lltd_port_free(a->extra);
    lltd_port_free(a);
}

void vh_flow_destroy(vp_iface *f) {
    free_autom(f->mapping); f->mapping = NULL;
    free_autom(f->session); f->session = NULL;
    free_autom(f->enumeration); f->enumeration = NULL;
    session_table_destroy(f->table); f->table = NULL;
}

void vh_flow_tick(vp_iface *f) {
    lltd_automata_tick_port tick_port = {
        .network_interface = f,
        .last_hello_tx_ms = &f->last_hello_tx_ms,
        .send_hello = send_hello_cb,
    };
    f->in_tick = 1;
    automata_tick(f->mapping, f->enumeration, f->table, &tick_port);
    f->in_tick = 0;
}

void vh_flow_frame(vp_iface *f) {
    lltd_demultiplex_header_t *header = (lltd_demultiplex_header_t *)f->rxbuf;

    int sess_event = derive_session_event(f->rxbuf, f->table, f->mac);
    vp_logf("R %d\n", sess_event);

    if (header->opcode == opcode_discover) {
        lltd_discover_upper_header_t *disc_header = (lltd_discover_upper_header_t *)(header + 1);
        uint16_t generation = lltd_ntohs(disc_header->generation);
        session_entry *entry = session_table_add(f->table, header->realSource.a, generation,
                                                 lltd_ntohs(header->seqNumber));
        if (entry) {
            entry->state = (uint8_t)sess_event;
            entry->last_activity_ts = lltd_monotonic_seconds();
            if (sess_event == sess_discover_acking || sess_event == sess_discover_acking_chgd_xid) {
                entry->complete = true;
            }
        }
        session_table_update_complete_status(f->table);
    } else if (header->opcode == opcode_reset) {
        session_table_clear(f->table);
    }

    uint8_t prev_mapping_state = f->mapping->current_state;
    switch_state_mapping(f->mapping, header->opcode, "rx");
    if (prev_mapping_state != 0 && f->mapping->current_state == 0) {
        session_table_clear(f->table);
    }

    if (f->mapping->extra) {
        mapping_reset_inactive_timeout((mapping_state *)f->mapping->extra);
    }
    if (header->opcode == opcode_charge && f->mapping->extra) {
        mapping_on_charge((mapping_state *)f->mapping->extra);
    }

    if (sess_event >= 0) {
        switch_state_session(f->session, sess_event, "rx");
    }

    if (header->opcode == opcode_hello) {
        if (f->enumeration->extra) {
            band_on_hello_received((band_state *)f->enumeration->extra);
        }
        switch_state_enumeration(f->enumeration, enum_hello, "rx");
    } else if (header->opcode == opcode_discover) {
        if (f->enumeration->current_state == 0) {
            if (f->enumeration->extra) {
                band_init_stats((band_state *)f->enumeration->extra);
                band_choose_hello_time((band_state *)f->enumeration->extra);
            }
        } else if (f->enumeration->extra) {
            ((band_state *)f->enumeration->extra)->begun = true;
        }
        switch_state_enumeration(f->enumeration, enum_new_session, "rx");
    }

    parseFrame(f->rxbuf, f);

    vh_flow_tick(f);
}

void vh_flow_linux(vp_iface *f) {
    lltd_demultiplex_header_t *header = (lltd_demultiplex_header_t *)f->rxbuf;
    switch_state_mapping(f->mapping, header->opcode, "rx");
    switch_state_session(f->session, header->opcode, "rx");
    parseFrame(f->rxbuf, f);
}
