/*
 * vh_threads: two threads, one interface context each, released together by a barrier so that both
 * take the first-frame path at the same moment (C17, concurrent clause).  ThreadSanitizer build.
 *
 *   vh_threads <input-file> <rounds> <seed>
 * input: IFACE 0 k=v.. / IFACE 1 k=v.. / GLOBAL k=v.. / H0 <hex> / H1 <hex>
 * output: STAT lines, DIFF lines (thread trace != solo trace), TSan reports on stderr.
 */
#define _GNU_SOURCE
#include <pthread.h>
#include <sched.h>
#include <stdlib.h>
#include <string.h>
#include <time.h>

#include "vport.h"
#include "lltdBlock.h"
#include "lltdAutomata.h"

#define MAXF 4096
typedef struct { uint8_t *p; size_t n; } frame_t;
static frame_t hist[2][MAXF];
static int nhist[2];
static vp_iface proto[2];

static __thread uint64_t t_hash;

static void hook(vp_iface *ifc, const uint8_t *frame, size_t len) {
    (void)ifc;
    uint64_t h = t_hash;
    h = (h ^ len) * 1099511628211ull;
    for (size_t i = 0; i < len; i++) h = (h ^ frame[i]) * 1099511628211ull;
    t_hash = h;
}

static pthread_barrier_t *g_inner_bar;      /* forced mode: both threads meet inside state creation */
static __thread int t_force;

static void verif_cb(const char *point, vp_iface *ifc) {
    (void)ifc;
    /* forced rounds: both threads have read the old list head before either publishes its record */
    if (t_force && g_inner_bar && !strcmp(point, "iface_state:link")) {
        t_force = 0;
        pthread_barrier_wait(g_inner_bar);
    }
}

typedef struct {
    int t;
    int force;
    vp_iface *ifc;
    pthread_barrier_t *bar;
    uint32_t seed;
    int threaded;
    uint64_t hash;
    uint64_t allocs;
    struct timespec t0, t1;
} job_t;

extern VP_TLS vp_ledger vp_led;

/* Each daemon thread builds the automata of its interface before it serves frames: construct them, fold their public
 * tables and a short walk of the session automaton into the trace hash, release them. */
static uint64_t fold(uint64_t h, uint64_t v) { return (h ^ v) * 1099511628211ull; }

static void automata_round(void) {
    automata *m = init_automata_mapping(), *s = init_automata_session(), *e = init_automata_enumeration();
    session_table *t = session_table_create();
    automata *all[3] = {m, s, e};
    uint64_t h = t_hash;
    for (int a = 0; a < 3; a++) {
        automata *x = all[a];
        if (!x) { h = fold(h, 0xdead); continue; }
        h = fold(h, x->states_no); h = fold(h, x->transitions_no); h = fold(h, x->current_state);
        for (int i = 0; i < x->states_no && i < MAX_STATES; i++) h = fold(h, (uint64_t)(int64_t)x->states_table[i].timeout);
        for (int i = 0; i < x->transitions_no && i < MAX_TRANSITIONS; i++) {
            h = fold(h, x->transitions_table[i].from); h = fold(h, x->transitions_table[i].to);
            h = fold(h, (uint64_t)(int64_t)x->transitions_table[i].with);
        }
    }
    if (s) {
        static const int walk[] = {sess_discover_noack, sess_discover_acking, sess_discover_noack_chgd_xid, sess_reset, sess_discover_acking, sess_hello};
        for (unsigned i = 0; i < sizeof(walk) / sizeof(walk[0]); i++) { switch_state_session(s, walk[i], "t"); h = fold(h, s->current_state); }
    }
    if (m) { switch_state_mapping(m, 0, "t"); h = fold(h, m->current_state); switch_state_mapping(m, 2, "t"); h = fold(h, m->current_state); }
    if (t) { uint8_t mac[6] = {2, 1, 2, 3, 4, 5}; session_table_add(t, mac, 1, 1); h = fold(h, (uint64_t)t->count); }
    for (int a = 0; a < 3; a++) if (all[a]) { lltd_port_free(all[a]->extra); lltd_port_free(all[a]); }
    session_table_destroy(t);
    t_hash = h;
}

/* The very first automata of the process, built by two threads at once (each daemon thread sets up its interface). */
static pthread_barrier_t first_bar;
static uint64_t first_hash[2];
static void *first_construction(void *arg) {
    int t = (int)(intptr_t)arg;
    t_hash = 1469598103934665603ull;
    vp_now_ms = 1000;
    pthread_barrier_wait(&first_bar);
    automata_round();
    first_hash[t] = t_hash;
    return NULL;
}

static void run_history(job_t *j) {
    vp_iface *f = j->ifc;
    t_hash = 1469598103934665603ull;
    vp_now_ms = 1000;
    memset(&vp_led, 0, sizeof(vp_led));
    uint32_t rs = j->seed ? j->seed : 1;
    for (int k = 0; k < nhist[j->t]; k++) {
        frame_t *fr = &hist[j->t][k];
        size_t n = fr->n > f->rxcap ? f->rxcap : fr->n;
        memcpy(f->rxbuf, fr->p, n);
        vp_begin_input();
        if (k == 0 && j->threaded) {
            t_force = j->force;
            pthread_barrier_wait(j->bar);
            clock_gettime(CLOCK_MONOTONIC, &j->t0);
        }
        if (k == 0) automata_round();
        parseFrame(f->rxbuf, f);
        if (k == 0 && j->threaded) clock_gettime(CLOCK_MONOTONIC, &j->t1);
        /* trace: frames (hashed by the hook), number of sends and total sleep per input */
        t_hash = (t_hash ^ vp_in.sends) * 1099511628211ull;
        t_hash = (t_hash ^ vp_in.sleep_ms) * 1099511628211ull;
        if (j->threaded && (vp_prng(&rs) & 3) == 0) sched_yield();
    }
    j->hash = t_hash;
    j->allocs = vp_led.allocs_total;
}

static void *thread_main(void *arg) {
    run_history((job_t *)arg);
    return NULL;
}

static int hexval(int c) { return c >= '0' && c <= '9' ? c - '0' : c >= 'a' && c <= 'f' ? c - 'a' + 10 : -1; }

static void kv(vp_iface *f, char *tok) {
    char *eq = strchr(tok, '=');
    if (!eq) return;
    *eq = 0;
    const char *v = eq + 1;
    if (!strcmp(tok, "mtu")) f->mtu = strtoul(v, NULL, 0);
    else if (!strcmp(tok, "mac")) { for (int i = 0; i < 6; i++) f->mac[i] = (uint8_t)(hexval(v[2 * i]) << 4 | hexval(v[2 * i + 1])); }
    else if (!strcmp(tok, "flags")) f->flags = (uint32_t)strtoul(v, NULL, 0);
    else if (!strcmp(tok, "iftype")) f->iftype = (uint32_t)strtoul(v, NULL, 0);
    else if (!strcmp(tok, "speed")) f->speed = (uint32_t)strtoul(v, NULL, 0);
    else if (!strcmp(tok, "wifi")) f->wifi_on = atoi(v);
    else if (!strcmp(tok, "rssi")) f->rssi = (int8_t)atoi(v);
    else if (!strcmp(tok, "rate")) f->rate = (uint16_t)atoi(v);
    else if (!strcmp(tok, "mode")) f->wifi_mode = (uint8_t)atoi(v);
}

static vp_iface *fresh_ctx(int t) {
    vp_iface *f = calloc(1, sizeof(*f));
    *f = proto[t];
    f->idx = t;
    f->rxcap = f->mtu;
    f->rxbuf = malloc(f->rxcap);
    vp_fill_stream(f->rxbuf, f->rxcap, 17 + (uint32_t)t);
    return f;
}

int main(int argc, char **argv) {
    if (argc < 4) { fprintf(stderr, "usage: vh_threads input rounds seed\n"); return 3; }
    long rounds = atol(argv[2]);
    uint32_t seed = (uint32_t)strtoul(argv[3], NULL, 0);
    FILE *fp = fopen(argv[1], "r");
    if (!fp) { perror(argv[1]); return 3; }
    char *line = NULL;
    size_t cap = 0;
    static uint8_t icon[3000], host[16], fname[40];
    static const uint8_t hwid[] = "T\0H\0R\0E\0A\0D\0S\0-\0H\0W\0-\0000\0001\0";
    vp_glob.hwid.p = (uint8_t *)hwid; vp_glob.hwid.len = sizeof(hwid) - 1;
    vp_fill_stream(icon, sizeof(icon), 9); vp_fill_stream(fname, sizeof(fname), 10);
    memcpy(host, "threads-host", 12);
    vp_glob.icon.p = icon; vp_glob.icon.len = sizeof(icon);
    vp_glob.fname.p = fname; vp_glob.fname.len = sizeof(fname);
    vp_glob.hostname.p = host; vp_glob.hostname.len = 12;
    proto[0].mtu = proto[1].mtu = 1500;
    while (getline(&line, &cap, fp) > 0) {
        char *save = NULL;
        char *tok = strtok_r(line, " \n", &save);
        if (!tok) continue;
        if (!strcmp(tok, "IFACE")) {
            int i = atoi(strtok_r(NULL, " \n", &save));
            while ((tok = strtok_r(NULL, " \n", &save))) kv(&proto[i & 1], tok);
        } else if (tok[0] == 'H' && (tok[1] == '0' || tok[1] == '1')) {
            int t = tok[1] - '0';
            char *hx = strtok_r(NULL, " \n", &save);
            if (!hx) hx = "";
            size_t n = strlen(hx) / 2;
            if (nhist[t] < MAXF) {
                frame_t *fr = &hist[t][nhist[t]++];
                fr->p = malloc(n ? n : 1);
                fr->n = n;
                for (size_t i = 0; i < n; i++) fr->p[i] = (uint8_t)(hexval(hx[2 * i]) << 4 | hexval(hx[2 * i + 1]));
            }
        }
    }
    fclose(fp);
    vp_silent = 1;
    vp_opt_sleep = 0;
    vp_send_hook = hook;
    vp_verif_cb = verif_cb;

    {
        pthread_t th[2];
        pthread_barrier_init(&first_bar, NULL, 2);
        for (int t = 0; t < 2; t++) pthread_create(&th[t], NULL, first_construction, (void *)(intptr_t)t);
        for (int t = 0; t < 2; t++) pthread_join(th[t], NULL);
        pthread_barrier_destroy(&first_bar);
        t_hash = 1469598103934665603ull;
        vp_now_ms = 1000;
        automata_round();                /* the same, later and alone */
        int bad = (first_hash[0] != t_hash) + (first_hash[1] != t_hash);
        printf("STAT first_constructions 2\nSTAT first_construction_diffs %d\n", bad);
        if (bad) printf("DIFF round=0 thread=%d class=automata-built-concurrently-differ allocs=0 solo_allocs=0\n", first_hash[0] != t_hash ? 0 : 1);
    }

    /* solo reference traces, each history alone on a fresh context */
    job_t solo[2];
    for (int t = 0; t < 2; t++) {
        memset(&solo[t], 0, sizeof(solo[t]));
        solo[t].t = t; solo[t].ifc = fresh_ctx(t); solo[t].threaded = 0; solo[t].seed = seed;
        run_history(&solo[t]);
    }
    printf("STAT solo_hash0 %llu\nSTAT solo_hash1 %llu\n", (unsigned long long)(solo[0].hash & 0xffffffff), (unsigned long long)(solo[1].hash & 0xffffffff));
    printf("STAT solo_allocs0 %llu\nSTAT solo_allocs1 %llu\n", (unsigned long long)solo[0].allocs, (unsigned long long)solo[1].allocs);

    long diffs = 0, recreated = 0, overlap = 0, forced = 0, lost = 0;
    for (long r = 0; r < rounds; r++) {
        pthread_barrier_t bar, inner;
        pthread_barrier_init(&bar, NULL, 2);
        pthread_barrier_init(&inner, NULL, 2);
        int force = (r & 1);        /* odd rounds: the two threads are aligned inside state creation */
        g_inner_bar = &inner;
        forced += force;
        job_t j[2];
        pthread_t th[2];
        for (int t = 0; t < 2; t++) {
            memset(&j[t], 0, sizeof(j[t]));
            j[t].t = t; j[t].ifc = fresh_ctx(t); j[t].bar = &bar; j[t].threaded = 1; j[t].force = force;
            j[t].seed = seed * 2654435761u + (uint32_t)r * 2 + (uint32_t)t;
            pthread_create(&th[t], NULL, thread_main, &j[t]);
        }
        for (int t = 0; t < 2; t++) pthread_join(th[t], NULL);
        pthread_barrier_destroy(&bar);
        pthread_barrier_destroy(&inner);
        for (int t = 0; t < 2; t++) if (j[t].ifc->state_creations > 1) lost++;
        /* did the two first-frame calls overlap in time? */
        long long a0 = j[0].t0.tv_sec * 1000000000ll + j[0].t0.tv_nsec, a1 = j[0].t1.tv_sec * 1000000000ll + j[0].t1.tv_nsec;
        long long b0 = j[1].t0.tv_sec * 1000000000ll + j[1].t0.tv_nsec, b1 = j[1].t1.tv_sec * 1000000000ll + j[1].t1.tv_nsec;
        if (a0 <= b1 && b0 <= a1) overlap++;
        for (int t = 0; t < 2; t++) {
            if (j[t].hash != solo[t].hash) {
                diffs++;
                /* a thread that needed more allocations than its solo run had its per-interface record
                 * created twice: the record made at the first frame was lost */
                int rec = j[t].ifc->state_creations > 1;
                if (rec) recreated++;
                if (diffs <= 10)
                    printf("DIFF round=%ld thread=%d class=%s allocs=%llu solo_allocs=%llu\n", r, t,
                           rec ? "state-record-recreated" : "other", (unsigned long long)j[t].allocs,
                           (unsigned long long)solo[t].allocs);
            }
        }
    }
    printf("STAT rounds %ld\nSTAT trace_diffs %ld\nSTAT diffs_state_record_recreated %ld\nSTAT rounds_first_frames_overlapped %ld\n",
           rounds, diffs, recreated, overlap);
    printf("STAT rounds_forced_into_state_creation %ld\nSTAT contexts_with_state_record_created_twice %ld\n", forced, lost);
    return 0;
}
