/*
 * Verification port: one implementation of lltdPort.h that records every
 * effect of the protocol core on its environment.  See DESIGN.md 2.1.
 */
#ifndef VERIF_VPORT_H
#define VERIF_VPORT_H

#include <stddef.h>
#include <stdint.h>
#include <stdio.h>

#include "lltdPort.h"
#include "lltdAutomata.h"

#ifdef VP_THREADS
#define VP_TLS __thread
#else
#define VP_TLS
#endif

#define VP_MAX_IFACES 8
#define VP_MAX_CAPTURE 1024

/* getter failure bits */
enum {
    VPF_MTU = 1u << 0, VPF_MAC = 1u << 1, VPF_IFTYPE = 1u << 2, VPF_IPV4 = 1u << 3,
    VPF_IPV6 = 1u << 4, VPF_SPEED = 1u << 5, VPF_WIFIMODE = 1u << 6, VPF_BSSID = 1u << 7,
    VPF_SSID = 1u << 8, VPF_RATE = 1u << 9, VPF_RSSI = 1u << 10, VPF_PHY = 1u << 11,
    VPF_HOSTNAME = 1u << 12, VPF_ICON = 1u << 13, VPF_FNAME = 1u << 14, VPF_HWID = 1u << 15,
    VPF_URL = 1u << 16, VPF_UUID = 1u << 17
};

typedef struct vp_blob {
    uint8_t *p;
    size_t len;
} vp_blob;

typedef struct vp_iface {
    int idx;
    int defined;
    size_t mtu;
    uint8_t mac[6];
    uint32_t flags;
    uint32_t iftype;
    uint8_t ipv4[4];
    uint8_t ipv6[16];
    uint32_t speed;
    int wifi_on;
    uint8_t wifi_mode;
    uint8_t bssid[6];
    vp_blob ssid;
    uint16_t rate;
    int8_t rssi;
    uint32_t phy;
    uint32_t failmask;
    int name_conv;           /* 0: return bytes written, 1: return full length */
    int txdown;              /* this interface's link is down: every transmit on it is refused */

    uint8_t *rxbuf;          /* malloc(mtu) receive buffer, reused for every frame */
    size_t rxcap;

    /* automata owned by the "daemon" side */
    automata *mapping, *session, *enumeration;
    session_table *table;
    uint64_t last_hello_tx_ms;
    int in_tick;
    int state_creations;      /* LLTD_VERIF_HOOKS: times the core created a state record for this context */

    /* frames transmitted during the current/last input (for DELIVER) */
    uint8_t *cap[VP_MAX_CAPTURE];
    size_t caplen[VP_MAX_CAPTURE];
    int ncap;
} vp_iface;

typedef struct vp_global {
    vp_blob hostname, url, hwid, icon, fname;
    uint8_t uuid[16];
    uint32_t failmask;
    int name_conv;
} vp_global;

typedef struct vp_ledger {
    uint64_t allocs_total;
    uint64_t live_cnt;
    uint64_t live_bytes;
    uint64_t hiwater_bytes;
    uint64_t failed;
} vp_ledger;

/* per-input counters */
typedef struct vp_incnt {
    uint64_t sends, refused, sleeps, sleep_ms, allocs, tlogged;
} vp_incnt;

extern vp_iface vp_ifaces[VP_MAX_IFACES];
extern vp_global vp_glob;
extern VP_TLS vp_ledger vp_led;
extern VP_TLS vp_incnt vp_in;
extern VP_TLS uint64_t vp_now_ms;
extern int vp_fill_mode;           /* -1: none, 0..255 byte, 256: seeded stream */
extern uint32_t vp_fill_seed;
extern int vp_opt_tx_hex;          /* log hex of transmitted frames */
extern int vp_opt_tx_cap;          /* T lines per input before only counting */
extern int vp_opt_tx_cost, vp_opt_hello_cost, vp_opt_clock_tick;
extern int vp_opt_pad;
extern int vp_opt_sloppy, vp_opt_fail_style, vp_opt_empty_ok;   /* text getters fill their window; failing getters leave partial outputs; empty icon is a success */
extern int vp_fail_rc;             /* return value of failing getters (any non-zero value is a failure) */
extern int vp_opt_sleep;           /* log Z lines */
extern int vp_silent;              /* no logging at all (C20 syscall bracket) */

/* when set, transmitted frames go to the hook instead of the log/capture (online oracles) */
extern void (*vp_send_hook)(vp_iface *ifc, const uint8_t *frame, size_t len);

/* LLTD_VERIF_HOOKS observation point; optional extra callback (e.g. to align two threads) */
void lltd_verif_hook(const char *point, void *iface_ctx);
extern void (*vp_verif_cb)(const char *point, vp_iface *ifc);

/* fault injection: countdown to the k-th call; mode 0 once, 1 persistent */
extern VP_TLS long vp_fault_malloc_k;
extern VP_TLS int vp_fault_malloc_mode;
extern VP_TLS long vp_fault_malloc_period;
extern VP_TLS long vp_fault_send_k;
extern VP_TLS int vp_fault_send_mode;

/* event log */
void vp_log_open(int fd);
void vp_logf(const char *fmt, ...) __attribute__((format(printf, 1, 2)));
void vp_log_hex(const uint8_t *p, size_t n);
void vp_log_flush(void);
void vp_install_crash_flush(void);

void vp_iface_reset_capture(vp_iface *ifc);
void vp_begin_input(void);
uint64_t vp_live_count(void);

uint32_t vp_prng(uint32_t *state);
void vp_fill_stream(uint8_t *dst, size_t n, uint32_t seed);

#endif
