/*
 * Verification port (DESIGN.md 2.1).  Implements lltdPort.h; every effect of
 * the core on its environment becomes an event in the log.
 */
#include "vport.h"

#include <stdarg.h>
#include <stdlib.h>
#include <string.h>
#include <unistd.h>

#if defined(__has_feature)
#if __has_feature(memory_sanitizer)
#include <sanitizer/msan_interface.h>
#define VP_MSAN 1
#endif
#endif

vp_iface vp_ifaces[VP_MAX_IFACES];
vp_global vp_glob;
VP_TLS vp_ledger vp_led;
VP_TLS vp_incnt vp_in;
VP_TLS uint64_t vp_now_ms = 1;
int vp_fill_mode = 0xA5;
uint32_t vp_fill_seed = 1;
int vp_opt_tx_hex = 1;
int vp_opt_tx_cap = 2000;
int vp_opt_sleep = 1;
int vp_opt_tx_cost = 0;        /* ms of monotonic time a transmit takes (blocking raw-socket write, driver queue) */
int vp_opt_hello_cost = 0;     /* ms the send_hello callback of the tick takes */
int vp_opt_clock_tick = 0;     /* ms the clock moves on every read (the repository's unit-test port does this with 1 ms) */
int vp_opt_pad = 0;
int vp_opt_sloppy = 0, vp_opt_fail_style = 0, vp_opt_empty_ok = 0;
int vp_fail_rc = -1;            /* what a failing int-returning getter returns: the core's convention is 0 = success */
int vp_silent = 0;
void (*vp_send_hook)(vp_iface *ifc, const uint8_t *frame, size_t len) = NULL;

VP_TLS long vp_fault_malloc_k = 0;
VP_TLS int vp_fault_malloc_mode = 0;      /* 0 once, 1 from the k-th on, 2 every k-th, 3 each with probability 1/k */
VP_TLS long vp_fault_malloc_period = 0;
VP_TLS long vp_fault_send_k = 0;
VP_TLS int vp_fault_send_mode = 0;

/* ------------------------------------------------------------------ log */

static VP_TLS int log_fd = -1;
static VP_TLS char *log_buf;
static VP_TLS size_t log_len, log_cap;

void vp_log_open(int fd) {
    log_fd = fd;
    if (!log_buf) {
        log_cap = 1 << 16;
        log_buf = malloc(log_cap);
    }
    log_len = 0;
}

static void log_reserve(size_t n) {
    if (log_len + n + 1 > log_cap) {
        while (log_len + n + 1 > log_cap) log_cap *= 2;
        log_buf = realloc(log_buf, log_cap);
    }
}

void vp_log_flush(void) {
    size_t off = 0;
    if (log_fd < 0) { log_len = 0; return; }
    while (off < log_len) {
        ssize_t w = write(log_fd, log_buf + off, log_len - off);
        if (w <= 0) break;
        off += (size_t)w;
    }
    log_len = 0;
}

void vp_logf(const char *fmt, ...) {
    if (vp_silent || log_fd < 0) return;
    va_list ap;
    log_reserve(512);
    va_start(ap, fmt);
    int n = vsnprintf(log_buf + log_len, 512, fmt, ap);
    va_end(ap);
    if (n > 0) log_len += (size_t)(n < 512 ? n : 511);
    if (log_len > (1u << 15)) vp_log_flush();
}

void vp_log_hex(const uint8_t *p, size_t n) {
    static const char hx[] = "0123456789abcdef";
    if (vp_silent || log_fd < 0) return;
    log_reserve(2 * n + 2);
    for (size_t i = 0; i < n; i++) {
        log_buf[log_len++] = hx[p[i] >> 4];
        log_buf[log_len++] = hx[p[i] & 15];
    }
    if (log_len > (1u << 15)) vp_log_flush();
}

/* A dying child must not take its buffered events with it. */
#if defined(__SANITIZE_ADDRESS__) || defined(__SANITIZE_THREAD__) || defined(VP_MSAN)
#define VP_HAVE_SAN 1
#elif defined(__has_feature)
#if __has_feature(address_sanitizer) || __has_feature(thread_sanitizer)
#define VP_HAVE_SAN 1
#endif
#endif
#ifdef VP_HAVE_SAN
void __sanitizer_set_death_callback(void (*callback)(void));
#endif
#if defined(__SANITIZE_ADDRESS__)
#define VP_ASAN 1
#elif defined(__has_feature)
#if __has_feature(address_sanitizer)
#define VP_ASAN 1
#endif
#endif
#include <signal.h>
static void crash_flush_cb(void) { vp_log_flush(); }
#include <execinfo.h>
static void crash_sig(int sig) {
    vp_log_flush();
    if (sig == SIGSEGV || sig == SIGBUS || sig == SIGFPE) {
        /* no sanitizer in this build: leave a backtrace for the offline symboliser */
        void *bt[40];
        int n = backtrace(bt, 40);
        static const char hdr[] = "VH-FAULT backtrace:\n";
        if (write(2, hdr, sizeof(hdr) - 1) < 0) { }
        backtrace_symbols_fd(bt, n, 2);
    }
    signal(sig, SIG_DFL);
    raise(sig);
}
void vp_install_crash_flush(void) {
#ifdef VP_HAVE_SAN
    __sanitizer_set_death_callback(crash_flush_cb);
#endif
#if !defined(VP_ASAN) && !defined(VP_MSAN)
    signal(SIGSEGV, crash_sig); signal(SIGBUS, crash_sig); signal(SIGFPE, crash_sig);
#endif
    signal(SIGABRT, crash_sig); signal(SIGXCPU, crash_sig);
}

/* ------------------------------------------------------------------ prng */

uint32_t vp_prng(uint32_t *s) {
    /* xorshift32, identical in vlib/wire.py */
    uint32_t x = *s ? *s : 0x9E3779B9u;
    x ^= x << 13;
    x ^= x >> 17;
    x ^= x << 5;
    *s = x;
    return x;
}

void vp_fill_stream(uint8_t *dst, size_t n, uint32_t seed) {
    uint32_t s = seed ? seed : 1;
    for (size_t i = 0; i < n; i++) dst[i] = (uint8_t)(vp_prng(&s) >> 11);
}

/* ------------------------------------------------------------------ ledger */

/* Pointers are stored masked so that the ledger itself does not keep leaked blocks "reachable"
 * in LeakSanitizer's eyes. */
typedef struct { uintptr_t k; size_t sz; } led_ent;
static VP_TLS led_ent *led_tab;
static VP_TLS size_t led_cap, led_used;   /* used counts live + tombstones */
#define LED_MASK ((uintptr_t)0x5a5a5a5a5a5a5a5aull)
#define LED_EMPTY ((uintptr_t)0)
#define LED_TOMB ((uintptr_t)1)
#define LED_KEY(p) (((uintptr_t)(p)) ^ LED_MASK)

static size_t led_hash(uintptr_t v, size_t cap) {
    v ^= v >> 17; v *= 0x9E3779B97F4A7C15ull; v ^= v >> 29;
    return (size_t)v & (cap - 1);
}

static void led_insert_raw(led_ent *tab, size_t cap, uintptr_t k, size_t sz) {
    size_t i = led_hash(k, cap);
    while (tab[i].k != LED_EMPTY && tab[i].k != LED_TOMB) i = (i + 1) & (cap - 1);
    tab[i].k = k; tab[i].sz = sz;
}

static void led_grow(void) {
    size_t ncap = led_cap ? led_cap * 2 : 1024;
    /* if mostly tombstones, rehash at the same size */
    if (led_cap && vp_led.live_cnt * 4 < led_cap) ncap = led_cap;
    led_ent *nt = calloc(ncap, sizeof(*nt));
    for (size_t i = 0; i < led_cap; i++)
        if (led_tab[i].k != LED_EMPTY && led_tab[i].k != LED_TOMB) led_insert_raw(nt, ncap, led_tab[i].k, led_tab[i].sz);
    free(led_tab);
    led_tab = nt; led_cap = ncap; led_used = (size_t)vp_led.live_cnt;
}

static void led_add(void *p, size_t sz) {
    if ((led_used + 1) * 2 > led_cap) led_grow();
    led_insert_raw(led_tab, led_cap, LED_KEY(p), sz);
    led_used++;
    vp_led.live_cnt++;
    vp_led.live_bytes += sz;
    if (vp_led.live_bytes > vp_led.hiwater_bytes) vp_led.hiwater_bytes = vp_led.live_bytes;
}

static int led_del(void *p, size_t *sz) {
    if (!led_cap) return 0;
    uintptr_t k = LED_KEY(p);
    size_t i = led_hash(k, led_cap);
    for (size_t n = 0; n < led_cap && led_tab[i].k != LED_EMPTY; n++, i = (i + 1) & (led_cap - 1)) {
        if (led_tab[i].k == k) {
            *sz = led_tab[i].sz;
            led_tab[i].k = LED_TOMB;
            vp_led.live_cnt--;
            vp_led.live_bytes -= *sz;
            return 1;
        }
    }
    return 0;
}

uint64_t vp_live_count(void) { return vp_led.live_cnt; }

/* ------------------------------------------------------------------ port: memory, time */

void *lltd_port_malloc(size_t size) {
    vp_in.allocs++;
    if (vp_fault_malloc_k > 0 && vp_fault_malloc_mode == 3) {
        /* every allocation fails with probability 1/k (own PRNG stream, reproducible) */
        static VP_TLS uint32_t fs = 0x9e3779b9u;
        fs ^= fs << 13; fs ^= fs >> 17; fs ^= fs << 5;
        if (fs % (uint32_t)vp_fault_malloc_k == 0) {
            vp_led.failed++;
            vp_logf("m %zu\n", size);
            return NULL;
        }
    } else if (vp_fault_malloc_k > 0) {
        if (vp_fault_malloc_k == 1) {
            if (vp_fault_malloc_mode == 0) vp_fault_malloc_k = 0;
            else if (vp_fault_malloc_mode == 2) vp_fault_malloc_k = vp_fault_malloc_period;      /* every k-th allocation */
            vp_led.failed++;
            vp_logf("m %zu\n", size);
            return NULL;
        }
        vp_fault_malloc_k--;
    }
    /* vp_opt_pad (plain builds only): the block is followed by pad bytes that belong to nobody and carry the fill pattern
     * too - a read that runs past a block then returns bytes that differ from run to run instead of allocator metadata */
    size_t padded = size + (size_t)vp_opt_pad;
    void *p = malloc(padded);
    if (!p) return NULL;
    vp_led.allocs_total++;
    led_add(p, size);
#ifndef VP_MSAN
    if (vp_fill_mode >= 0 && vp_fill_mode < 256) memset(p, vp_fill_mode, padded);
    else if (vp_fill_mode == 256) vp_fill_stream(p, padded, vp_fill_seed + (uint32_t)vp_led.allocs_total);
#endif
    return p;
}

void lltd_port_free(void *ptr) {
    size_t sz = 0;
    if (!ptr) return;
    if (!led_del(ptr, &sz)) {
        /* not ours: let the allocator / sanitizer judge (double free, wild free) */
        vp_logf("f? %p\n", ptr);
        vp_log_flush();
    }
    free(ptr);
}

void *lltd_port_memset(void *ptr, int value, size_t num) { return memset(ptr, value, num); }
void *lltd_port_memcpy(void *d, const void *s, size_t n) { return memcpy(d, s, n); }
int lltd_port_memcmp(const void *a, const void *b, size_t n) { return memcmp(a, b, n); }

uint64_t lltd_port_monotonic_seconds(void) { vp_now_ms += (uint64_t)vp_opt_clock_tick; return vp_now_ms / 1000; }
uint64_t lltd_port_monotonic_milliseconds(void) { vp_now_ms += (uint64_t)vp_opt_clock_tick; return vp_now_ms; }

void lltd_port_sleep_ms(uint32_t ms) {
    vp_in.sleeps++;
    vp_in.sleep_ms += ms;
    vp_now_ms += ms;
    if (vp_opt_sleep && vp_in.tlogged < (uint64_t)vp_opt_tx_cap) vp_logf("Z %u\n", ms);
}

/* ------------------------------------------------------------------ port: transmit */

void vp_iface_reset_capture(vp_iface *ifc) {
    for (int i = 0; i < ifc->ncap; i++) { free(ifc->cap[i]); ifc->cap[i] = NULL; }
    ifc->ncap = 0;
}

void vp_begin_input(void) {
    memset(&vp_in, 0, sizeof(vp_in));
}

int lltd_port_send_frame(void *ctx, const void *frame, size_t len) {
    vp_iface *ifc = (vp_iface *)ctx;
    int idx = ifc ? ifc->idx : -1;
    if (ifc && ifc->txdown) {
        vp_in.refused++;
        vp_logf("t %d %zu\n", idx, len);
        return -1;
    }
    if (vp_fault_send_k > 0) {
        if (vp_fault_send_k == 1) {
            if (vp_fault_send_mode == 0) vp_fault_send_k = 0;
            vp_in.refused++;
            vp_logf("t %d %zu\n", idx, len);
            return -1;
        }
        vp_fault_send_k--;
    }
#ifdef VP_MSAN
    __msan_check_mem_is_initialized(frame, len);
#endif
    vp_in.sends++;
    vp_now_ms += (uint64_t)vp_opt_tx_cost;
    if (vp_send_hook) {
        vp_send_hook(ifc, (const uint8_t *)frame, len);
        return 0;
    }
    if (vp_in.tlogged < (uint64_t)vp_opt_tx_cap) {
        vp_in.tlogged++;
        vp_logf("T %d %zu ", idx, len);
        if (vp_opt_tx_hex) vp_log_hex((const uint8_t *)frame, len);
        vp_logf("\n");
    }
    if (ifc && ifc->ncap < VP_MAX_CAPTURE && len > 0) {
        uint8_t *c = malloc(len);
        memcpy(c, frame, len);
        ifc->cap[ifc->ncap] = c;
        ifc->caplen[ifc->ncap] = len;
        ifc->ncap++;
    }
    return 0;
}

/* ------------------------------------------------------------------ port: attributes */

#define IFC(ctx) ((vp_iface *)(ctx))
#define IFAIL(ctx, bit) (!(ctx) || (IFC(ctx)->failmask & (bit)))

int lltd_port_get_mtu(void *ctx, size_t *out) {
    if (IFAIL(ctx, VPF_MTU) || !out) return vp_fail_rc;
    *out = IFC(ctx)->mtu;
    return 0;
}

static vp_blob blob_dup_ledger(const vp_blob *b) {
    /* ownership passes to the core, which frees through lltd_port_free */
    vp_blob r = {0, 0};
    r.p = lltd_port_malloc(b->len ? b->len : 1);
    if (!r.p) return r;
    if (b->len) memcpy(r.p, b->p, b->len);
    r.len = b->len;
    return r;
}

int lltd_port_get_icon_image(void **out_data, size_t *out_size) {
    if (!out_data || !out_size) return vp_fail_rc;
    if (vp_glob.icon.len == 0 && vp_opt_empty_ok && !(vp_glob.failmask & VPF_ICON)) {
        /* a platform whose icon file exists but is empty: success, a real buffer, size 0 */
        void *p = lltd_port_malloc(1);
        if (!p) { *out_data = NULL; *out_size = 0; return vp_fail_rc; }
        *out_data = p; *out_size = 0;
        return 0;
    }
    if ((vp_glob.failmask & VPF_ICON) || vp_glob.icon.len == 0) {
        if (vp_opt_fail_style) { *out_data = NULL; *out_size = vp_glob.icon.len ? vp_glob.icon.len : 300; }   /* size stored, then the allocation failed */
        else { *out_data = NULL; *out_size = 0; }
        return vp_fail_rc;
    }
    vp_blob r = blob_dup_ledger(&vp_glob.icon);
    if (!r.p) { *out_data = NULL; *out_size = 0; return vp_fail_rc; }
    *out_data = r.p; *out_size = r.len;
    return 0;
}

int lltd_port_get_friendly_name(void **out_data, size_t *out_size) {
    if (!out_data || !out_size) return vp_fail_rc;
    if ((vp_glob.failmask & VPF_FNAME) || vp_glob.fname.len == 0) {
        if (vp_opt_fail_style) { *out_data = NULL; *out_size = vp_glob.fname.len ? vp_glob.fname.len : 24; }   /* as os/darwin does: size first, then malloc */
        else { *out_data = NULL; *out_size = 0; }
        return vp_fail_rc;
    }
    vp_blob r = blob_dup_ledger(&vp_glob.fname);
    if (!r.p) { *out_data = NULL; *out_size = 0; return vp_fail_rc; }
    *out_data = r.p; *out_size = r.len;
    return 0;
}

static size_t name_out(const vp_blob *b, void *dst, size_t dst_len, int conv, int may_fill) {
    if (!dst || dst_len == 0) return 0;
    size_t n = b->len < dst_len ? b->len : dst_len;
    if (vp_opt_sloppy && may_fill) {
        /* a getter that copies a driver's fixed-width field whole: the window is filled to its end, the length returned is
         * that of the string */
        for (size_t i = 0; i < dst_len; i++) ((uint8_t *)dst)[i] = (uint8_t)(0xC1 + (i * 7 & 0x3f));
    }
    if (n) memcpy(dst, b->p, n);
    return conv ? b->len : n;
}

size_t lltd_port_get_hostname(void *dst, size_t dst_len) {
    if (vp_glob.failmask & VPF_HOSTNAME) return 0;
    return name_out(&vp_glob.hostname, dst, dst_len, vp_glob.name_conv, 1);
}

size_t lltd_port_get_support_url(void *dst, size_t dst_len) {
    if (vp_glob.failmask & VPF_URL) return 0;
    return name_out(&vp_glob.url, dst, dst_len, vp_glob.name_conv, 1);
}

int lltd_port_get_upnp_uuid(uint8_t out_uuid[16]) {
    if (vp_glob.failmask & VPF_UUID) return vp_fail_rc;
    memcpy(out_uuid, vp_glob.uuid, 16);
    return 0;
}

size_t lltd_port_get_hw_id(void *dst, size_t dst_len) {
    if (vp_glob.failmask & VPF_HWID) return 0;
    return name_out(&vp_glob.hwid, dst, dst_len, vp_glob.name_conv, 0);      /* the core finds its end by the terminator */
}

int lltd_port_get_mac_address(void *ctx, ethernet_address_t *out) {
    if (IFAIL(ctx, VPF_MAC) || !out) return vp_fail_rc;
    memcpy(out->a, IFC(ctx)->mac, 6);
    return 0;
}

uint32_t lltd_port_get_characteristics_flags(void *ctx) {
    return ctx ? IFC(ctx)->flags : 0;
}

int lltd_port_get_if_type(void *ctx, uint32_t *out) {
    if (IFAIL(ctx, VPF_IFTYPE) || !out) return vp_fail_rc;
    *out = IFC(ctx)->iftype;
    return 0;
}

int lltd_port_get_ipv4_address(void *ctx, uint32_t *out_be) {
    if (IFAIL(ctx, VPF_IPV4) || !out_be) return vp_fail_rc;
    memcpy(out_be, IFC(ctx)->ipv4, 4);
    return 0;
}

int lltd_port_get_ipv6_address(void *ctx, uint8_t out[16]) {
    if (IFAIL(ctx, VPF_IPV6) || !out) return vp_fail_rc;
    memcpy(out, IFC(ctx)->ipv6, 16);
    return 0;
}

int lltd_port_get_link_speed_100bps(void *ctx, uint32_t *out) {
    if (IFAIL(ctx, VPF_SPEED) || !out) return vp_fail_rc;
    *out = IFC(ctx)->speed;
    return 0;
}

int lltd_port_get_wifi_mode(void *ctx, uint8_t *out) {
    if (!ctx || !IFC(ctx)->wifi_on || IFAIL(ctx, VPF_WIFIMODE) || !out) return vp_fail_rc;
    *out = IFC(ctx)->wifi_mode;
    return 0;
}

int lltd_port_get_bssid(void *ctx, uint8_t out[6]) {
    if (!ctx || !IFC(ctx)->wifi_on || IFAIL(ctx, VPF_BSSID) || !out) return vp_fail_rc;
    memcpy(out, IFC(ctx)->bssid, 6);
    return 0;
}

size_t lltd_port_get_ssid(void *ctx, void *dst, size_t dst_len) {
    if (!ctx || !IFC(ctx)->wifi_on || IFAIL(ctx, VPF_SSID)) return 0;
    return name_out(&IFC(ctx)->ssid, dst, dst_len, IFC(ctx)->name_conv, 1);
}

int lltd_port_get_wifi_max_rate_0_5mbps(void *ctx, uint16_t *out) {
    if (!ctx || !IFC(ctx)->wifi_on || IFAIL(ctx, VPF_RATE) || !out) return vp_fail_rc;
    *out = IFC(ctx)->rate;
    return 0;
}

int lltd_port_get_wifi_rssi_dbm(void *ctx, int8_t *out) {
    if (!ctx || !IFC(ctx)->wifi_on || IFAIL(ctx, VPF_RSSI) || !out) return vp_fail_rc;
    *out = IFC(ctx)->rssi;
    return 0;
}

int lltd_port_get_wifi_phy_medium(void *ctx, uint32_t *out) {
    if (!ctx || !IFC(ctx)->wifi_on || IFAIL(ctx, VPF_PHY) || !out) return vp_fail_rc;
    *out = IFC(ctx)->phy;
    return 0;
}

/* ------------------------------------------------------------------ source hook (LLTD_VERIF_HOOKS) */

void (*vp_verif_cb)(const char *point, vp_iface *ifc) = NULL;

void lltd_verif_hook(const char *point, void *iface_ctx) {
    vp_iface *ifc = (vp_iface *)iface_ctx;
    if (ifc && point && !strcmp(point, "iface_state:create")) ifc->state_creations++;
    if (vp_verif_cb) vp_verif_cb(point, ifc);
}

/* ------------------------------------------------------------------ port: logging */

/* The format strings and arguments are part of the core's UB surface: format
 * them for real (under ASan/UBSan) and discard the result. */

/* Walk the arguments in instrumented code first: every %s argument is read up to its terminator here, so that a string
 * that is not terminated, dangling or uninitialised is reported at this spot by the sanitizer of the build (libc's own
 * formatter is not instrumented). */
static void vlog_walk(const char *fmt, va_list ap0) {
    va_list ap;
    va_copy(ap, ap0);
    for (const char *p = fmt; *p; p++) {
        if (*p != '%') continue;
        p++;
        if (*p == '%') continue;
        while (*p && strchr("-+ #0", *p)) p++;
        if (*p == '*') { (void)va_arg(ap, int); p++; } else while (*p >= '0' && *p <= '9') p++;
        if (*p == '.') { p++; if (*p == '*') { (void)va_arg(ap, int); p++; } else while (*p >= '0' && *p <= '9') p++; }
        int l = 0, z = 0;
        while (*p == 'l' || *p == 'h' || *p == 'z' || *p == 'j' || *p == 't') { if (*p == 'l') l++; if (*p == 'z' || *p == 'j' || *p == 't') z = 1; p++; }
        switch (*p) {
            case 'd': case 'i': case 'u': case 'x': case 'X': case 'o': case 'c':
                if (z || l >= 1) { if (l >= 2) (void)va_arg(ap, long long); else (void)va_arg(ap, long); } else (void)va_arg(ap, int);
                break;
            case 'p': (void)va_arg(ap, void *); break;
            case 's': {
                const char *s = va_arg(ap, const char *);
                unsigned acc = 0;          /* no shared state here: loggers run on every daemon thread */
                if (s) for (size_t i = 0; i < 4096; i++) { unsigned char c = (unsigned char)s[i]; acc += c; if (!c) break; }
                __asm__ volatile("" : : "r"(acc) : "memory");
                break;
            }
            case 'f': case 'g': case 'e': (void)va_arg(ap, double); break;
            case 0: va_end(ap); return;
            default: va_end(ap); return;       /* unknown conversion: stop walking, libc still formats */
        }
    }
    va_end(ap);
}

static void vlog_discard(const char *fmt, va_list ap) {
    char scratch[1024];
    vlog_walk(fmt, ap);
    (void)vsnprintf(scratch, sizeof(scratch), fmt, ap);
}

void lltd_port_log_debug(const char *fmt, ...) {
    va_list ap;
    va_start(ap, fmt);
    vlog_discard(fmt, ap);
    va_end(ap);
}

void lltd_port_log_warning(const char *fmt, ...) {
    va_list ap;
    va_start(ap, fmt);
    vlog_discard(fmt, ap);
    va_end(ap);
}
