/* Daemon flows built from the real core functions (DESIGN.md 2.3). */
#ifndef VERIF_VH_FLOW_H
#define VERIF_VH_FLOW_H
#include "vport.h"
void vh_flow_ensure(vp_iface *f);
void vh_flow_destroy(vp_iface *f);
void vh_flow_frame(vp_iface *f);   /* darwin-main.c receive-loop body for one frame (incl. trailing tick) */
void vh_flow_linux(vp_iface *f);   /* linux-main.c / linux-embedded-main.c loop body */
void vh_flow_tick(vp_iface *f);    /* the timeout branch: automata_tick only */
#endif
