/*
 * libFuzzer entry (clang, -fsanitize=fuzzer,address,undefined): fuzz bytes are interpreted as a
 * scenario - MTU, attribute set, then a sequence of frame / flow / tick / clock operations.
 */
#include <stdlib.h>
#include <string.h>

#include "vport.h"
#include "vh_flow.h"
#include "lltdBlock.h"

#define NCTX 32
static vp_iface pool[NCTX];
static int inited;
static unsigned long runs;

static const size_t MTUS[8] = {576, 577, 1280, 1500, 1514, 4096, 9000, 9216};

static void reset_frame(uint8_t *b, const uint8_t *own, uint8_t tos) {
    memset(b, 0xff, 6); memset(b + 6, 0x02, 6); b[12] = 0x88; b[13] = 0xd9; b[14] = 1; b[15] = tos; b[16] = 0; b[17] = 8;
    memset(b + 18, 0xff, 6); memset(b + 24, 0x02, 6); b[30] = 0; b[31] = 0;
    (void)own;
}

/* The session-event classifier is not told the frame length (recorded finding of C01): keep the
 * station count within what the MTU-sized buffer holds so that the fuzzer explores everything else. */
static void clamp_discover(vp_iface *f, size_t mtu) {
    if (f->rxbuf[17] != 0) return;
    size_t fits = (mtu - 36) / 6;
    size_t cnt = (size_t)f->rxbuf[34] << 8 | f->rxbuf[35];
    if (cnt > fits) { f->rxbuf[34] = (uint8_t)(fits >> 8); f->rxbuf[35] = (uint8_t)fits; }
}

int LLVMFuzzerTestOneInput(const uint8_t *data, size_t size) {
    if (!inited) {
        inited = 1;
        vp_silent = 1;
        vp_opt_sleep = 0;
        static uint8_t icon[20000], fname[300], host[40], hw[64];
        vp_fill_stream(icon, sizeof(icon), 5); vp_fill_stream(fname, sizeof(fname), 6);
        vp_fill_stream(host, sizeof(host), 7); vp_fill_stream(hw, sizeof(hw), 8);
        vp_glob.icon.p = icon; vp_glob.fname.p = fname; vp_glob.hostname.p = host; vp_glob.hwid.p = hw;
    }
    if (size < 8) return 0;
    vp_iface *f = &pool[runs++ % NCTX];
    size_t mtu = MTUS[data[0] & 7];
    if (data[0] & 8) mtu = 576 + (((size_t)data[1] << 8 | data[2]) % (9216 - 576 + 1));
    if (data[0] & 16) mtu = 68 + (((size_t)data[1] << 8 | data[2]) % 508);      /* very small MTUs: 68 (the minimum Linux accepts) .. 575 */
    if (f->rxcap != mtu) {
        free(f->rxbuf);
        f->rxbuf = malloc(mtu);
        f->rxcap = mtu;
        vp_fill_stream(f->rxbuf, mtu, 3);
    }
    f->idx = (int)(f - pool); f->defined = 1; f->mtu = mtu;
    f->mac[0] = 2; f->mac[1] = data[3]; f->mac[2] = 1; f->mac[3] = 2; f->mac[4] = 3; f->mac[5] = 4;
    f->wifi_on = data[4] & 1; f->wifi_mode = 1; f->rssi = (int8_t)data[5]; f->rate = 108;
    f->name_conv = (data[4] >> 1) & 1; vp_glob.name_conv = (data[4] >> 2) & 1;
    f->failmask = (data[4] & 0x80) ? data[6] | ((uint32_t)data[7] << 8) : 0;
    f->failmask &= ~1u;     /* buffer size and reported MTU stay consistent */
    vp_glob.icon.len = (data[6] * 79u) % 20001u; vp_glob.fname.len = data[7] % 301u;
    vp_glob.hostname.len = data[5] % 41u; vp_glob.hwid.len = 64; f->ssid.p = vp_glob.hostname.p; f->ssid.len = data[3] % 41u;
    vp_now_ms = 1 + data[2] * 997u;
    /* back to fresh-start behaviour for this context (C09) */
    reset_frame(f->rxbuf, f->mac, 0); parseFrame(f->rxbuf, f);
    reset_frame(f->rxbuf, f->mac, 1); parseFrame(f->rxbuf, f);
    vh_flow_ensure(f);
    size_t i = 8;
    int ops = 0;
    while (i + 3 <= size && ops < 64) {
        uint8_t op = data[i];
        size_t len = ((size_t)data[i + 1] << 8 | data[i + 2]);
        i += 3;
        if (len > size - i) len = size - i;
        if (len > mtu) len = mtu;
        switch (op & 7) {
            case 0: case 1: case 2:
                memcpy(f->rxbuf, data + i, len); vp_begin_input(); parseFrame(f->rxbuf, f); break;
            case 3:
                memcpy(f->rxbuf, data + i, len); clamp_discover(f, mtu); vp_begin_input(); vh_flow_frame(f); break;
            case 4:
                memcpy(f->rxbuf, data + i, len); vp_begin_input(); vh_flow_linux(f); break;
            case 5:
                vp_now_ms += (uint64_t)len * 37; vh_flow_tick(f); len = 0; break;
            case 6:
                vp_now_ms += 31000; vh_flow_tick(f); len = 0; break;
            case 7:
                memcpy(f->rxbuf, data + i, len); clamp_discover(f, mtu); vp_begin_input();
                (void)derive_session_event(f->rxbuf, (op & 8) ? f->table : NULL, f->mac);
                break;
        }
        i += len;
        ops++;
    }
    vh_flow_destroy(f);
    vp_iface_reset_capture(f);
    return 0;
}
