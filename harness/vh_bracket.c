/*
 * vh_bracket: syscall bracket for C20.  A silent, arena-backed port (no libc allocation, no stdio);
 * the core is driven between two marker system calls - write(999,"BEGIN") / write(999,"END") - and
 * strace must show nothing in between.  Links against libcore-<cfg>.so.
 *
 * With -DVH_BARE the same program is a port without any C runtime (own _start, raw system calls, no
 * loader, nobody walks .init_array): linked statically with the relocatable core it must report the
 * same SENT line as the hosted run - a core that relies on start-up services does not.
 */
#include <stdarg.h>
#include <stddef.h>
#include <stdint.h>
#ifndef VH_BARE
#include <string.h>
#include <unistd.h>
#else
static long sys3(long n, long a, long b, long c) {
    long r;
    __asm__ volatile("syscall" : "=a"(r) : "a"(n), "D"(a), "S"(b), "d"(c) : "rcx", "r11", "memory");
    return r;
}
static long bare_write(int fd, const void *p, size_t n) { long r = sys3(1, fd, (long)p, (long)n); return r < 0 ? -1 : r; }
#define write bare_write
int main(void);
void bare_entry(void) { int rc = main(); sys3(60, rc, 0, 0); for (;;) { } }
__asm__(".globl _start\n_start:\n xor %ebp,%ebp\n and $-16,%rsp\n call bare_entry\n hlt\n");
/* the memory primitives a C compiler may emit by itself */
void *memcpy(void *d, const void *s, size_t n) { uint8_t *a = d; const uint8_t *b = s; while (n--) *a++ = *b++; return d; }
void *memmove(void *d, const void *s, size_t n) { uint8_t *a = d; const uint8_t *b = s; if (a < b) while (n--) *a++ = *b++; else while (n--) a[n] = b[n]; return d; }
void *memset(void *p, int v, size_t n) { uint8_t *b = p; while (n--) *b++ = (uint8_t)v; return p; }
int memcmp(const void *x, const void *y, size_t n) { const uint8_t *a = x, *b = y; for (; n--; a++, b++) if (*a != *b) return *a - *b; return 0; }
#endif

#include "lltdPort.h"
#include "lltdBlock.h"
#include "lltdAutomata.h"

static uint8_t arena[1 << 20];
static size_t arena_off;
static uint64_t now_ms = 1000;
static unsigned long sent, sent_bytes, hash = 1469598103;
static const uint8_t OWN[6] = {2, 0x11, 0x22, 0x33, 0x44, 0x55};
static const uint8_t MP[6] = {2, 0xaa, 0, 0, 0, 1};
static const uint8_t BC[6] = {0xff, 0xff, 0xff, 0xff, 0xff, 0xff};

void *lltd_port_malloc(size_t n) {
    n = (n + 15) & ~(size_t)15;
    if (arena_off + n > sizeof(arena)) return NULL;
    void *p = arena + arena_off;
    arena_off += n;
    return p;
}
void lltd_port_free(void *p) { (void)p; }
void *lltd_port_memset(void *p, int v, size_t n) { uint8_t *b = p; while (n--) *b++ = (uint8_t)v; return p; }
void *lltd_port_memcpy(void *d, const void *s, size_t n) { uint8_t *a = d; const uint8_t *b = s; while (n--) *a++ = *b++; return d; }
int lltd_port_memcmp(const void *x, const void *y, size_t n) { const uint8_t *a = x, *b = y; for (; n--; a++, b++) if (*a != *b) return *a - *b; return 0; }
uint64_t lltd_port_monotonic_seconds(void) { return now_ms / 1000; }
uint64_t lltd_port_monotonic_milliseconds(void) { return now_ms; }
void lltd_port_sleep_ms(uint32_t ms) { now_ms += ms; }
int lltd_port_send_frame(void *ctx, const void *f, size_t n) {
    (void)ctx; sent++; sent_bytes += n;
    for (size_t i = 0; i < n; i++) hash = (hash ^ ((const uint8_t *)f)[i]) * 16777619u;
    return 0;
}
int lltd_port_get_mtu(void *c, size_t *o) { (void)c; *o = 1500; return 0; }
static uint8_t icon[3000];
int lltd_port_get_icon_image(void **d, size_t *s) { void *p = lltd_port_malloc(sizeof(icon)); if (!p) return -1; lltd_port_memcpy(p, icon, sizeof(icon)); *d = p; *s = sizeof(icon); return 0; }
int lltd_port_get_friendly_name(void **d, size_t *s) { void *p = lltd_port_malloc(8); if (!p) return -1; lltd_port_memcpy(p, "V\0e\0r\0i\0", 8); *d = p; *s = 8; return 0; }
size_t lltd_port_get_hostname(void *d, size_t n) { size_t k = n < 5 ? n : 5; lltd_port_memcpy(d, "brack", k); return k; }
size_t lltd_port_get_support_url(void *d, size_t n) { (void)d; (void)n; return 0; }
int lltd_port_get_upnp_uuid(uint8_t o[16]) { (void)o; return -1; }
size_t lltd_port_get_hw_id(void *d, size_t n) { size_t k = n < 4 ? n : 4; lltd_port_memcpy(d, "H\0W\0", k); return k; }
int lltd_port_get_mac_address(void *c, ethernet_address_t *o) { (void)c; lltd_port_memcpy(o->a, OWN, 6); return 0; }
uint32_t lltd_port_get_characteristics_flags(void *c) { (void)c; return 0x2000; }
int lltd_port_get_if_type(void *c, uint32_t *o) { (void)c; *o = 6; return 0; }
int lltd_port_get_ipv4_address(void *c, uint32_t *o) { (void)c; *o = 0x0100a8c0; return 0; }
int lltd_port_get_ipv6_address(void *c, uint8_t o[16]) { (void)c; lltd_port_memset(o, 0xfe, 16); return 0; }
int lltd_port_get_link_speed_100bps(void *c, uint32_t *o) { (void)c; *o = 1000000; return 0; }
int lltd_port_get_wifi_mode(void *c, uint8_t *o) { (void)c; *o = 2; return 0; }
int lltd_port_get_bssid(void *c, uint8_t o[6]) { (void)c; lltd_port_memset(o, 0x0a, 6); return 0; }
size_t lltd_port_get_ssid(void *c, void *d, size_t n) { (void)c; size_t k = n < 3 ? n : 3; lltd_port_memcpy(d, "net", k); return k; }
int lltd_port_get_wifi_max_rate_0_5mbps(void *c, uint16_t *o) { (void)c; *o = 108; return 0; }
int lltd_port_get_wifi_rssi_dbm(void *c, int8_t *o) { (void)c; *o = -40; return 0; }
int lltd_port_get_wifi_phy_medium(void *c, uint32_t *o) { (void)c; *o = 1; return 0; }
void lltd_port_log_debug(const char *f, ...) { (void)f; }
void lltd_port_log_warning(const char *f, ...) { (void)f; }

static uint8_t rx[1500];
static size_t base(const uint8_t *ed, const uint8_t *es, uint8_t tos, uint8_t op, const uint8_t *rd, const uint8_t *rs, uint16_t seq) {
    lltd_port_memcpy(rx, ed, 6); lltd_port_memcpy(rx + 6, es, 6); rx[12] = 0x88; rx[13] = 0xd9; rx[14] = 1; rx[15] = tos; rx[16] = 0; rx[17] = op;
    lltd_port_memcpy(rx + 18, rd, 6); lltd_port_memcpy(rx + 24, rs, 6); rx[30] = (uint8_t)(seq >> 8); rx[31] = (uint8_t)seq;
    return 32;
}
static void hello_cb(void *x) { (void)x; sent++; }

int main(void) {
    int ctx = 0;
    uint64_t last_tx = 0;
    for (size_t i = 0; i < sizeof(icon); i++) icon[i] = (uint8_t)(i * 7);
    lltd_port_memset(rx, 0x55, sizeof(rx));
    if (write(999, "BEGIN", 5) != -1) return 3;
    automata *m = init_automata_mapping(), *s = init_automata_session(), *e = init_automata_enumeration();
    session_table *t = session_table_create();
    lltd_automata_tick_port tp = { &ctx, &last_tx, hello_cb };
    for (int round = 0; round < 20; round++) {
        size_t n = base(BC, MP, round & 1, 0, BC, MP, 7); rx[n++] = 0; rx[n++] = (uint8_t)(round + 1); rx[n++] = 0; rx[n++] = 1; lltd_port_memcpy(rx + n, OWN, 6);
        int ev = derive_session_event(rx, t, OWN);
        session_table_add(t, MP, (uint16_t)(round + 1), 7);
        switch_state_mapping(m, 0, "b"); switch_state_session(s, ev, "b"); switch_state_enumeration(e, 3, "b");
        band_init_stats((band_state *)e->extra); band_choose_hello_time((band_state *)e->extra);
        parseFrame(rx, &ctx);
        n = base(OWN, MP, 0, 2, OWN, MP, 9); rx[n++] = 0; rx[n++] = 2;
        rx[n++] = 1; rx[n++] = 1; lltd_port_memcpy(rx + n, MP, 6); n += 6; lltd_port_memcpy(rx + n, OWN, 6); n += 6;
        rx[n++] = 0; rx[n++] = 0; lltd_port_memcpy(rx + n, OWN, 6); n += 6; lltd_port_memcpy(rx + n, MP, 6); n += 6;
        parseFrame(rx, &ctx);
        for (int k = 0; k < 40; k++) { uint8_t src[6] = {2, 9, 9, (uint8_t)round, (uint8_t)k, 1}; base(OWN, src, 0, (k & 1) ? 4 : 3, OWN, src, 0); parseFrame(rx, &ctx); }
        base(OWN, MP, 0, 6, OWN, MP, 11); parseFrame(rx, &ctx);
        for (int ty = 0; ty < 3; ty++) { n = base(OWN, MP, 0, 0x0B, OWN, MP, 12); rx[n++] = (uint8_t)(ty == 0 ? 0x0E : ty == 1 ? 0x11 : 0x13); rx[n++] = 0; rx[n++] = 0; rx[n++] = (uint8_t)(ty * 3); parseFrame(rx, &ctx); }
        for (int k = 0; k < 30; k++) { now_ms += 100; automata_tick(m, e, t, &tp); }
        for (int op = 0; op < 16; op++) { base(OWN, MP, (uint8_t)(round % 4), (uint8_t)op, OWN, MP, 3); if (!(op == 2 || op == 0)) parseFrame(rx, &ctx); }
        base(BC, MP, 0, 8, BC, MP, 0); parseFrame(rx, &ctx); session_table_clear(t);
        now_ms += 31000; automata_tick(m, e, t, &tp);
    }
    if (write(999, "END", 3) != -1) return 3;
    /* outside the bracket: report what happened so that the run cannot be vacuous */
    char out[96];
    int k = 0;
    const char *pfx = "SENT ";
    while (*pfx) out[k++] = *pfx++;
    unsigned long v = sent; char tmp[24]; int j = 0; do { tmp[j++] = (char)('0' + v % 10); v /= 10; } while (v); while (j) out[k++] = tmp[--j];
    out[k++] = ' '; v = hash; j = 0; do { tmp[j++] = (char)('0' + v % 10); v /= 10; } while (v); while (j) out[k++] = tmp[--j];
    out[k++] = '\n';
    if (write(1, out, (size_t)k) < 0) return 3;
    return 0;
}
