/*
 * vh_frames: scenario interpreter and fork server (DESIGN.md 2.2, Appendix A).
 *
 *   vh_frames <scenario-file> <log-file> [--nofork] [--cpu-limit s]
 *
 * Each "SCN id ... END" block runs in a child forked before any core function
 * has run, so every scenario starts from a freshly started daemon's state and
 * a sanitizer abort or hang is attributed to exactly one scenario.
 */
#define _GNU_SOURCE
#include <ctype.h>
#include <errno.h>
#include <fcntl.h>
#include <signal.h>
#include <stdlib.h>
#include <string.h>
#include <sys/mman.h>
#include <sys/resource.h>
#include <sys/stat.h>
#include <sys/time.h>
#include <sys/wait.h>
#include <unistd.h>

#include "vport.h"
#include "lltdBlock.h"
#include "vh_flow.h"

#ifdef VH_WITH_ESP32
#include "lltd_esp32.h"
static lltd_esp32_ctx_t esp_ctx[VP_MAX_IFACES];
static int esp_inited[VP_MAX_IFACES];
#endif

static int opt_ledger = 0, opt_asnap = 1, opt_in = 1;
static long input_no = 0;

/* ------------------------------------------------------------------ parsing */

static int hexval(int c) {
    if (c >= '0' && c <= '9') return c - '0';
    if (c >= 'a' && c <= 'f') return c - 'a' + 10;
    if (c >= 'A' && c <= 'F') return c - 'A' + 10;
    return -1;
}

static size_t hex_decode(const char *s, uint8_t *out, size_t cap) {
    size_t n = 0;
    while (s[0] && s[1] && hexval(s[0]) >= 0 && hexval(s[1]) >= 0) {
        if (n < cap) out[n] = (uint8_t)(hexval(s[0]) << 4 | hexval(s[1]));
        n++;
        s += 2;
    }
    return n;
}

static void blob_set(vp_blob *b, const char *spec) {
    free(b->p);
    b->p = NULL; b->len = 0;
    if (!spec || !*spec || !strcmp(spec, "-")) return;
    if (spec[0] == '@') {                 /* @seed:len  pseudo-random content */
        unsigned long seed = strtoul(spec + 1, NULL, 0);
        const char *c = strchr(spec, ':');
        size_t len = c ? strtoul(c + 1, NULL, 0) : 0;
        b->p = malloc(len ? len : 1);
        vp_fill_stream(b->p, len, (uint32_t)seed);
        b->len = len;
        return;
    }
    size_t len = strlen(spec) / 2;
    b->p = malloc(len ? len : 1);
    b->len = hex_decode(spec, b->p, len);
}

static void hexfix(const char *s, uint8_t *out, size_t n) {
    memset(out, 0, n);
    hex_decode(s, out, n);
}

static void iface_kv(vp_iface *f, const char *k, const char *v) {
    if (!strcmp(k, "mtu")) f->mtu = strtoul(v, NULL, 0);
    else if (!strcmp(k, "mac")) hexfix(v, f->mac, 6);
    else if (!strcmp(k, "flags")) f->flags = (uint32_t)strtoul(v, NULL, 0);
    else if (!strcmp(k, "iftype")) f->iftype = (uint32_t)strtoul(v, NULL, 0);
    else if (!strcmp(k, "ipv4")) hexfix(v, f->ipv4, 4);
    else if (!strcmp(k, "ipv6")) hexfix(v, f->ipv6, 16);
    else if (!strcmp(k, "speed")) f->speed = (uint32_t)strtoul(v, NULL, 0);
    else if (!strcmp(k, "wifi")) f->wifi_on = atoi(v);
    else if (!strcmp(k, "mode")) f->wifi_mode = (uint8_t)strtoul(v, NULL, 0);
    else if (!strcmp(k, "bssid")) hexfix(v, f->bssid, 6);
    else if (!strcmp(k, "ssid")) blob_set(&f->ssid, v);
    else if (!strcmp(k, "rate")) f->rate = (uint16_t)strtoul(v, NULL, 0);
    else if (!strcmp(k, "rssi")) f->rssi = (int8_t)strtol(v, NULL, 0);
    else if (!strcmp(k, "phy")) f->phy = (uint32_t)strtoul(v, NULL, 0);
    else if (!strcmp(k, "fail")) f->failmask = (uint32_t)strtoul(v, NULL, 0);
    else if (!strcmp(k, "conv")) f->name_conv = atoi(v);
    else if (!strcmp(k, "txdown")) f->txdown = atoi(v);
    else if (!strcmp(k, "rxseed")) { /* handled by caller */ }
    else { fprintf(stderr, "vh: unknown iface key %s\n", k); exit(3); }
}

static void global_kv(const char *k, const char *v) {
    if (!strcmp(k, "hostname")) blob_set(&vp_glob.hostname, v);
    else if (!strcmp(k, "url")) blob_set(&vp_glob.url, v);
    else if (!strcmp(k, "hwid")) blob_set(&vp_glob.hwid, v);
    else if (!strcmp(k, "icon")) blob_set(&vp_glob.icon, v);
    else if (!strcmp(k, "fname")) blob_set(&vp_glob.fname, v);
    else if (!strcmp(k, "uuid")) hexfix(v, vp_glob.uuid, 16);
    else if (!strcmp(k, "fail")) vp_glob.failmask = (uint32_t)strtoul(v, NULL, 0);
    else if (!strcmp(k, "conv")) vp_glob.name_conv = atoi(v);
    else { fprintf(stderr, "vh: unknown global key %s\n", k); exit(3); }
}

/* split line into tokens in place */
static int split(char *line, char **tok, int max) {
    int n = 0;
    char *p = line;
    while (*p && n < max) {
        while (*p == ' ' || *p == '\t') p++;
        if (!*p || *p == '\n' || *p == '\r') break;
        tok[n++] = p;
        while (*p && *p != ' ' && *p != '\t' && *p != '\n' && *p != '\r') p++;
        if (*p) *p++ = 0;
    }
    return n;
}

/* VH_FAR_CTX: the interface contexts are not neighbours in one array but live exactly 4 GiB apart (contexts from
 * different mappings, or a port that passes a composite 64-bit handle): a core that keys its records by a truncated or
 * folded context value confuses them */
static vp_iface *far_ctx(int i) {
    static uint8_t *base;
    static vp_iface *slot[VP_MAX_IFACES];
    if (!base) {
        base = mmap(NULL, ((size_t)VP_MAX_IFACES + 1) << 32, PROT_NONE, MAP_PRIVATE | MAP_ANONYMOUS | MAP_NORESERVE, -1, 0);
        if (base == MAP_FAILED) { perror("mmap far contexts"); exit(3); }
    }
    if (!slot[i]) {
        uint8_t *p = base + ((size_t)i << 32) + 4096;
        size_t len = (sizeof(vp_iface) + 4095) / 4096 * 4096;
        if (mprotect(p, len, PROT_READ | PROT_WRITE) != 0) { perror("mprotect far context"); exit(3); }
        slot[i] = (vp_iface *)p;
        memset(slot[i], 0, sizeof(vp_iface));
    }
    return slot[i];
}

static vp_iface *ifc_of(const char *s) {
    int i = atoi(s);
    if (i < 0 || i >= VP_MAX_IFACES) { fprintf(stderr, "vh: bad iface %s\n", s); exit(3); }
    static int far = -1;
    if (far < 0) far = getenv("VH_FAR_CTX") ? 1 : 0;
    vp_iface *f = far ? far_ctx(i) : &vp_ifaces[i];
    f->idx = i;
    return f;
}

/* ------------------------------------------------------------------ input bracketing */

static void begin_input(const char *op, vp_iface *f) {
    input_no++;
    vp_begin_input();
    if (f) vp_iface_reset_capture(f);
    if (opt_in) {
        vp_logf("I %ld %s %d\n", input_no, op, f ? f->idx : -1);
        vp_log_flush();      /* the I line is on disk before the core runs */
    }
}

static void end_input(void) {
    if (opt_in)
        vp_logf("O %llu %llu %llu %llu %llu\n",
                (unsigned long long)vp_in.sends, (unsigned long long)vp_in.refused,
                (unsigned long long)vp_in.sleeps, (unsigned long long)vp_in.sleep_ms,
                (unsigned long long)vp_in.allocs);
    if (opt_ledger)
        vp_logf("L %llu %llu %llu %llu\n",
                (unsigned long long)vp_led.live_cnt, (unsigned long long)vp_led.live_bytes,
                (unsigned long long)vp_led.allocs_total, (unsigned long long)vp_led.hiwater_bytes);
}

static size_t load_rx(vp_iface *f, const char *hex) {
    if (!f->rxbuf) { fprintf(stderr, "vh: iface %d not defined\n", f->idx); exit(3); }
    size_t n = hex_decode(hex, f->rxbuf, f->rxcap);
    return n > f->rxcap ? f->rxcap : n;
}

/* ------------------------------------------------------------------ automata snapshots */

static void snap_M(vp_iface *f) {
    if (!opt_asnap || !f->mapping) return;
    mapping_state *m = (mapping_state *)f->mapping->extra;
    vp_logf("A M %u %llu %u %llu %llu %d %d %d\n", f->mapping->current_state,
            (unsigned long long)f->mapping->last_ts, m ? m->ctc : 0,
            (unsigned long long)(m ? m->charge_timeout_ts : 0),
            (unsigned long long)(m ? m->inactive_timeout_ts : 0),
            (int)f->mapping->states_table[0].timeout, (int)f->mapping->states_table[1].timeout,
            (int)f->mapping->states_table[2].timeout);
}

static void snap_S(vp_iface *f) {
    if (!opt_asnap || !f->session) return;
    vp_logf("A S %u %llu\n", f->session->current_state, (unsigned long long)f->session->last_ts);
}

static void snap_E(vp_iface *f) {
    if (!opt_asnap || !f->enumeration) return;
    band_state *b = (band_state *)f->enumeration->extra;
    vp_logf("A E %u %llu %u %u %d %llu %llu\n", f->enumeration->current_state,
            (unsigned long long)f->enumeration->last_ts, b ? b->Ni : 0, b ? b->r : 0,
            b ? (int)b->begun : 0, (unsigned long long)(b ? b->hello_timeout_ts : 0),
            (unsigned long long)(b ? b->block_timeout_ts : 0));
}

static void snap_T(vp_iface *f) {
    if (!opt_asnap || !f->table) return;
    session_table *t = f->table;
    vp_logf("A T %u %d", t->count, (int)t->all_complete);
    for (int i = 0; i < SESSION_TABLE_MAX_ENTRIES; i++) {
        session_entry *e = &t->entries[i];
        if (!e->valid) continue;
        vp_logf(" %d:%02x%02x%02x%02x%02x%02x:%u:%u:%u:%d:%llu:%llu", i,
                e->mapper_mac[0], e->mapper_mac[1], e->mapper_mac[2], e->mapper_mac[3],
                e->mapper_mac[4], e->mapper_mac[5], e->generation, e->seq_number, e->state,
                (int)e->complete, (unsigned long long)e->last_activity_ts,
                (unsigned long long)e->created_ts);
    }
    vp_logf("\n");
}

static automata *which_autom(vp_iface *f, const char *w) {
    switch (w[0]) {
        case 'M': return f->mapping;
        case 'S': return f->session;
        case 'E': return f->enumeration;
    }
    return NULL;
}

/* ------------------------------------------------------------------ op interpreter */


static void rx_alloc(vp_iface *f, uint32_t rxseed) {
    f->rxcap = f->mtu;
    if (getenv("VH_GUARD_RX")) {
        /* guard-page allocator: the buffer ends exactly where 2 MiB of PROT_NONE begin, so an access
         * that jumps far over a sanitizer red zone still faults */
        size_t pg = 4096, guard = 2u << 20;
        size_t body = (f->rxcap + pg - 1) / pg * pg;
        uint8_t *m = mmap(NULL, body + guard, PROT_READ | PROT_WRITE, MAP_PRIVATE | MAP_ANONYMOUS, -1, 0);
        if (m == MAP_FAILED) { perror("mmap"); exit(3); }
        mprotect(m + body, guard, PROT_NONE);
        f->rxbuf = m + body - f->rxcap;
    } else {
        free(f->rxbuf);
        f->rxbuf = malloc(f->rxcap);
    }
    vp_fill_stream(f->rxbuf, f->rxcap, rxseed);   /* defined, seeded initial content */
}

static void run_line(char *line) {
    char *tok[64];
    int nt = split(line, tok, 64);
    if (nt == 0 || tok[0][0] == '#') return;
    const char *op = tok[0];

    if (!strcmp(op, "IFACE")) {
        vp_iface *f = ifc_of(tok[1]);
        uint32_t rxseed = 7;
        f->defined = 1;
        for (int i = 2; i < nt; i++) {
            char *eq = strchr(tok[i], '=');
            if (!eq) continue;
            *eq = 0;
            if (!strcmp(tok[i], "rxseed")) rxseed = (uint32_t)strtoul(eq + 1, NULL, 0);
            else iface_kv(f, tok[i], eq + 1);
        }
        if (f->mtu == 0) f->mtu = 1500;
        rx_alloc(f, rxseed);
    } else if (!strcmp(op, "MTU")) {                     /* MTU i n [rxseed]: the link's MTU changes; the daemon re-sizes its receive buffer */
        vp_iface *f = ifc_of(tok[1]);
        f->mtu = strtoul(tok[2], NULL, 0);
        if (f->mtu == 0) f->mtu = 1500;
        rx_alloc(f, nt > 3 ? (uint32_t)strtoul(tok[3], NULL, 0) : 7);
    } else if (!strcmp(op, "SET")) {
        vp_iface *f = ifc_of(tok[1]);
        for (int i = 2; i < nt; i++) {
            char *eq = strchr(tok[i], '=');
            if (!eq) continue;
            *eq = 0;
            iface_kv(f, tok[i], eq + 1);
        }
    } else if (!strcmp(op, "GLOBAL") || !strcmp(op, "GSET")) {
        for (int i = 1; i < nt; i++) {
            char *eq = strchr(tok[i], '=');
            if (!eq) continue;
            *eq = 0;
            global_kv(tok[i], eq + 1);
        }
    } else if (!strcmp(op, "OPT")) {
        for (int i = 1; i < nt; i++) {
            char *eq = strchr(tok[i], '=');
            if (!eq) continue;
            *eq = 0;
            int v = atoi(eq + 1);
            if (!strcmp(tok[i], "noensure")) { extern int vh_flow_noensure; vh_flow_noensure = (int)v; }
            if (!strcmp(tok[i], "txhex")) vp_opt_tx_hex = v;
            else if (!strcmp(tok[i], "txcap")) vp_opt_tx_cap = v;
            else if (!strcmp(tok[i], "sleep")) vp_opt_sleep = v;
            else if (!strcmp(tok[i], "failrc")) vp_fail_rc = v ? v : -1;
            else if (!strcmp(tok[i], "sloppy")) vp_opt_sloppy = v;
            else if (!strcmp(tok[i], "failstyle")) vp_opt_fail_style = v;
            else if (!strcmp(tok[i], "emptyicon")) vp_opt_empty_ok = v;
            else if (!strcmp(tok[i], "txcost")) vp_opt_tx_cost = v;
            else if (!strcmp(tok[i], "hellocost")) vp_opt_hello_cost = v;
            else if (!strcmp(tok[i], "clocktick")) vp_opt_clock_tick = v;
            else if (!strcmp(tok[i], "ledger")) opt_ledger = v;
            else if (!strcmp(tok[i], "asnap")) opt_asnap = v;
            else if (!strcmp(tok[i], "in")) opt_in = v;
        }
    } else if (!strcmp(op, "FILL")) {
        vp_fill_mode = atoi(tok[1]);
        if (nt > 2) vp_fill_seed = (uint32_t)strtoul(tok[2], NULL, 0);
    } else if (!strcmp(op, "NOW")) {
        vp_now_ms = strtoull(tok[1], NULL, 0);
    } else if (!strcmp(op, "ADV")) {
        vp_now_ms += strtoull(tok[1], NULL, 0);
    } else if (!strcmp(op, "MARK")) {
        vp_logf("K %s\n", nt > 1 ? tok[1] : "");
    } else if (!strcmp(op, "LEDGER")) {
        vp_logf("G %llu %llu %llu %llu\n",
                (unsigned long long)vp_led.live_cnt, (unsigned long long)vp_led.live_bytes,
                (unsigned long long)vp_led.allocs_total, (unsigned long long)vp_led.hiwater_bytes);
    } else if (!strcmp(op, "FAULT")) {
        long k = strtol(tok[2], NULL, 0);
        int mode = nt > 3 ? atoi(tok[3]) : 0;
        if (!strcmp(tok[1], "malloc")) { vp_fault_malloc_k = k; vp_fault_malloc_mode = mode; vp_fault_malloc_period = k; }
        else { vp_fault_send_k = k; vp_fault_send_mode = mode; }
    } else if (!strcmp(op, "CLEAR")) {
        vp_fault_malloc_k = 0; vp_fault_send_k = 0;
    } else if (!strcmp(op, "F")) {                       /* parseFrame */
        vp_iface *f = ifc_of(tok[1]);
        load_rx(f, nt > 2 ? tok[2] : "");
        begin_input("F", f);
        parseFrame(f->rxbuf, f);
        end_input();
    } else if (!strcmp(op, "FR") || !strcmp(op, "WR")) { /* FR|WR i n hex...: the listed frames n times over, one logged input (counter wraps) */
        vp_iface *f = ifc_of(tok[1]);
        long n = atol(tok[2]);
        begin_input(op, f);
        if (op[0] == 'W') vh_flow_ensure(f);
        for (long k = 0; k < n; k++) {
            for (int t = 3; t < (nt > 3 ? nt : 4); t++) {   /* the listed frames in turn, n times over */
                load_rx(f, t < nt ? tok[t] : "");
                if (op[0] == 'W') vh_flow_frame(f);
                else parseFrame(f->rxbuf, f);
            }
        }
        if (op[0] == 'W') { snap_M(f); snap_E(f); snap_T(f); }
        end_input();
    } else if (!strcmp(op, "E")) {                       /* derive_session_event only */
        vp_iface *f = ifc_of(tok[1]);
        load_rx(f, nt > 2 ? tok[2] : "");
        begin_input("E", f);
        int r = derive_session_event(f->rxbuf, f->table, f->mac);
        vp_logf("R %d\n", r);
        end_input();
    } else if (!strcmp(op, "W")) {                       /* documented daemon flow */
        vp_iface *f = ifc_of(tok[1]);
        load_rx(f, nt > 2 ? tok[2] : "");
        begin_input("W", f);
        vh_flow_ensure(f);
        vh_flow_frame(f);
        snap_M(f); snap_E(f); snap_T(f);
        end_input();
    } else if (!strcmp(op, "LX")) {                      /* linux daemon loop body */
        vp_iface *f = ifc_of(tok[1]);
        load_rx(f, nt > 2 ? tok[2] : "");
        begin_input("LX", f);
        vh_flow_ensure(f);
        vh_flow_linux(f);
        end_input();
    } else if (!strcmp(op, "K")) {                       /* periodic tick */
        vp_iface *f = ifc_of(tok[1]);
        begin_input("K", f);
        vh_flow_ensure(f);
        vh_flow_tick(f);
        snap_M(f); snap_E(f); snap_T(f);
        end_input();
    } else if (!strcmp(op, "KR")) {                      /* KR i n ms [j]: n times (advance ms, [tick j,] tick i) */
        vp_iface *f = ifc_of(tok[1]);
        long n = atol(tok[2]);
        uint64_t step = strtoull(tok[3], NULL, 0);
        vp_iface *g = nt > 4 ? ifc_of(tok[4]) : NULL;    /* the daemon's loop ticks every interface in turn */
        vh_flow_ensure(f);
        if (g) vh_flow_ensure(g);
        for (long k = 0; k < n; k++) {
            vp_now_ms += step;
            if (g) {
                begin_input("K", g);
                vh_flow_tick(g);
                end_input();
            }
            begin_input("K", f);
            vh_flow_tick(f);
            snap_M(f); snap_E(f); snap_T(f);
            end_input();
        }
#ifdef VH_WITH_ESP32
    } else if (!strcmp(op, "X")) {                       /* esp32 length-checked entry */
        vp_iface *f = ifc_of(tok[1]);
        const char *hex = nt > 2 ? tok[2] : "";
        size_t len = strlen(hex) / 2;
        uint8_t *exact = malloc(len ? len : 1);          /* exactly len bytes: byte len is a red zone */
        hex_decode(hex, exact, len);
        begin_input("X", f);
        if (!esp_inited[f->idx]) { lltd_esp32_init(&esp_ctx[f->idx]); esp_inited[f->idx] = 1; }
        lltd_esp32_handle_frame(&esp_ctx[f->idx], len ? exact : exact, len);
        end_input();
        free(exact);
#endif
    } else if (!strcmp(op, "DELIVER")) {                 /* C10: A's output becomes B's input */
        vp_iface *a = ifc_of(tok[1]);
        vp_iface *b = ifc_of(tok[2]);
        int n = a->ncap;
        for (int i = 0; i < n; i++) {
            if (a->caplen[i] < 6 || memcmp(a->cap[i], b->mac, 6) != 0) continue;
            size_t len = a->caplen[i] > b->rxcap ? b->rxcap : a->caplen[i];
            memcpy(b->rxbuf, a->cap[i], len);
            begin_input("D", b);
            vp_logf("d %d %zu ", a->idx, len);
            vp_log_hex(b->rxbuf, len);
            vp_logf("\n");
            parseFrame(b->rxbuf, b);
            end_input();
        }
    } else if (!strcmp(op, "AI")) {                      /* construct automata + table */
        vp_iface *f = ifc_of(tok[1]);
        begin_input("AI", f);
        vh_flow_ensure(f);
        vp_logf("R %d\n", (f->mapping != NULL) + 2 * (f->session != NULL) + 4 * (f->enumeration != NULL) + 8 * (f->table != NULL));
        snap_M(f); snap_S(f); snap_E(f); snap_T(f);
        end_input();
    } else if (!strcmp(op, "AC")) {                      /* one constructor: M S E T */
        vp_iface *f = ifc_of(tok[1]);
        begin_input("AC", f);
        void *r = NULL;
        switch (tok[2][0]) {
            case 'M': r = f->mapping = init_automata_mapping(); break;
            case 'S': r = f->session = init_automata_session(); break;
            case 'E': r = f->enumeration = init_automata_enumeration(); break;
            case 'T': r = f->table = session_table_create(); break;
        }
        vp_logf("R %d\n", r != NULL);
        end_input();
    } else if (!strcmp(op, "AD")) {                      /* destroy what was constructed */
        vp_iface *f = ifc_of(tok[1]);
        vh_flow_destroy(f);
    } else if (!strcmp(op, "SM") || !strcmp(op, "SS") || !strcmp(op, "SE")) {
        vp_iface *f = ifc_of(tok[1]);
        int input = atoi(tok[2]);
        begin_input(op, f);
        if (op[1] == 'M') { if (f->mapping) switch_state_mapping(f->mapping, input, "vh"); snap_M(f); }
        else if (op[1] == 'S') { if (f->session) switch_state_session(f->session, input, "vh"); snap_S(f); }
        else { if (f->enumeration) switch_state_enumeration(f->enumeration, input, "vh"); snap_E(f); }
        end_input();
    } else if (!strcmp(op, "PS")) {                      /* poke state + last_ts: PS i M state last_ts */
        vp_iface *f = ifc_of(tok[1]);
        automata *a = which_autom(f, tok[2]);
        if (a) { a->current_state = (uint8_t)atoi(tok[3]); a->last_ts = strtoull(tok[4], NULL, 0); }
    } else if (!strcmp(op, "TA") || !strcmp(op, "TF") || !strcmp(op, "TR") || !strcmp(op, "TM")) {
        vp_iface *f = ifc_of(tok[1]);
        uint8_t mac[6];
        hexfix(tok[2], mac, 6);
        uint16_t gen = (uint16_t)strtoul(tok[3], NULL, 0);
        uint16_t seq = nt > 4 ? (uint16_t)strtoul(tok[4], NULL, 0) : 0;
        begin_input(op, f);
        if (op[1] == 'A') {
            session_entry *e = session_table_add(f->table, mac, gen, seq);
            vp_logf("R %d\n", e ? (int)(e - f->table->entries) : -1);
        } else if (op[1] == 'F') {
            session_entry *e = session_table_find(f->table, mac, gen, seq);
            vp_logf("R %d\n", e ? (int)(e - f->table->entries) : -1);
        } else if (op[1] == 'R') {
            session_table_remove(f->table, mac, gen);
        } else {                                         /* mark complete as the daemon does */
            session_entry *e = session_table_find(f->table, mac, gen, 0);
            if (e) e->complete = seq ? true : false;
            session_table_update_complete_status(f->table);
            vp_logf("R %d\n", e ? (int)(e - f->table->entries) : -1);
        }
        snap_T(f);
        end_input();
    } else if (!strcmp(op, "TC") || !strcmp(op, "TU") || !strcmp(op, "TE") || !strcmp(op, "TQ")) {
        vp_iface *f = ifc_of(tok[1]);
        begin_input(op, f);
        if (op[1] == 'C') session_table_clear(f->table);
        else if (op[1] == 'U') session_table_update_complete_status(f->table);
        else if (op[1] == 'E') vp_logf("R %d\n", (int)session_table_is_empty(f->table));
        else vp_logf("R %d\n", (int)session_table_all_complete(f->table));
        snap_T(f);
        end_input();
    } else if (op[0] == 'B' && op[1] && !op[2]) {        /* band ops */
        vp_iface *f = ifc_of(tok[1]);
        band_state *b = f->enumeration ? (band_state *)f->enumeration->extra : NULL;
        begin_input(op, f);
        switch (op[1]) {
            case 'I': band_init_stats(b); break;
            case 'C': vp_logf("R %llu\n", (unsigned long long)band_choose_hello_time(b)); break;
            case 'U': band_update_stats(b); break;
            case 'H': band_on_hello_received(b); break;
            case 'D': band_do_hello(b); break;
            case 'G': if (b) b->begun = true; break;
            case 'P':                                    /* BP i Ni r begun hello block */
                if (b) {
                    b->Ni = (uint32_t)strtoul(tok[2], NULL, 0);
                    b->r = (uint32_t)strtoul(tok[3], NULL, 0);
                    b->begun = atoi(tok[4]) != 0;
                    b->hello_timeout_ts = strtoull(tok[5], NULL, 0);
                    b->block_timeout_ts = strtoull(tok[6], NULL, 0);
                }
                break;
        }
        snap_E(f);
        end_input();
    } else if (op[0] == 'M' && op[1] && !op[2]) {        /* mapping_state ops */
        vp_iface *f = ifc_of(tok[1]);
        mapping_state *m = f->mapping ? (mapping_state *)f->mapping->extra : NULL;
        begin_input(op, f);
        switch (op[1]) {
            case 'C': mapping_on_charge(m); break;
            case 'R': mapping_reset_inactive_timeout(m); break;
            case 'X': mapping_reset_charge(m); break;
            case 'Q': vp_logf("R %d\n", (int)mapping_check_charge_timeout(m)); break;
            case 'I': vp_logf("R %d\n", (int)mapping_check_inactive_timeout(m)); break;
        }
        snap_M(f);
        end_input();
    } else {
        fprintf(stderr, "vh: unknown op %s\n", op);
        exit(3);
    }
}

/* ------------------------------------------------------------------ scenarios */

static void run_scenario(char *text, int logfd, const char *id) {
    vp_log_open(logfd);
    vp_install_crash_flush();
    vp_logf("S %s\n", id);
    vp_log_flush();
    char *save = NULL;
    for (char *line = strtok_r(text, "\n", &save); line; line = strtok_r(NULL, "\n", &save)) {
        run_line(line);
    }
    vp_log_flush();
}

static char *slurp(const char *path, size_t *len) {
    int fd = open(path, O_RDONLY);
    if (fd < 0) { perror(path); exit(3); }
    struct stat st;
    fstat(fd, &st);
    char *buf = malloc((size_t)st.st_size + 1);
    size_t off = 0;
    while (off < (size_t)st.st_size) {
        ssize_t r = read(fd, buf + off, (size_t)st.st_size - off);
        if (r <= 0) break;
        off += (size_t)r;
    }
    buf[off] = 0;
    close(fd);
    *len = off;
    return buf;
}

static void wr(int fd, const char *s, size_t n) {
    while (n) {
        ssize_t w = write(fd, s, n);
        if (w <= 0) return;
        s += w; n -= (size_t)w;
    }
}

int main(int argc, char **argv) {
    int nofork = 0;
    long cpu_limit = 60;
    if (argc < 3) {
        fprintf(stderr, "usage: %s scenario-file log-file [--nofork] [--cpu-limit s]\n", argv[0]);
        return 3;
    }
    for (int i = 3; i < argc; i++) {
        if (!strcmp(argv[i], "--nofork")) nofork = 1;
        else if (!strcmp(argv[i], "--cpu-limit") && i + 1 < argc) cpu_limit = atol(argv[++i]);
    }
    if (getenv("VH_PAD")) vp_opt_pad = atoi(getenv("VH_PAD"));       /* plain builds: patterned slack after every allocation */
    if (getenv("VH_FILL")) vp_fill_mode = atoi(getenv("VH_FILL"));   /* default fill of fresh allocations (-1: leave as is) */
    size_t len;
    char *all = slurp(argv[1], &len);
    int logfd = open(argv[2], O_WRONLY | O_CREAT | O_TRUNC | O_APPEND, 0644);
    if (logfd < 0) { perror(argv[2]); return 3; }
    char errpath[4096];
    snprintf(errpath, sizeof(errpath), "%s.stderr", argv[2]);

    char *p = all;
    while (p && *p) {
        char *scn = strstr(p, "SCN ");
        if (!scn || (scn != all && scn[-1] != '\n')) {
            if (!scn) break;
            p = scn + 4;
            continue;
        }
        char *eol = strchr(scn, '\n');
        if (!eol) break;
        char id[256];
        size_t idl = (size_t)(eol - (scn + 4));
        if (idl >= sizeof(id)) idl = sizeof(id) - 1;
        memcpy(id, scn + 4, idl);
        id[idl] = 0;
        char *body = eol + 1;
        char *end = strstr(body, "\nEND");
        char *next;
        if (!strncmp(body, "END", 3)) { end = body; next = body + 3; *end = 0; }
        else if (end) { *end = 0; next = end + 4; }
        else { next = NULL; }

        if (nofork) {
            run_scenario(body, logfd, id);
            char x[300];
            int n = snprintf(x, sizeof(x), "X %s exit 0 0\n", id);
            wr(logfd, x, (size_t)n);
        } else {
            int efd = open(errpath, O_RDWR | O_CREAT | O_TRUNC, 0644);
            pid_t pid = fork();
            if (pid == 0) {
                struct rlimit rl = { (rlim_t)cpu_limit, (rlim_t)cpu_limit + 2 };
                setrlimit(RLIMIT_CPU, &rl);
                dup2(efd, 2);
                close(efd);
                run_scenario(body, logfd, id);
                exit(0);
            }
            int status = 0;
            struct rusage ru;
            memset(&ru, 0, sizeof(ru));
            wait4(pid, &status, 0, &ru);
            long cpu_ms = ru.ru_utime.tv_sec * 1000 + ru.ru_utime.tv_usec / 1000 +
                          ru.ru_stime.tv_sec * 1000 + ru.ru_stime.tv_usec / 1000;
            char x[400];
            int n;
            /* a partial line from a dying child is terminated first */
            wr(logfd, "\n", 1);
            if (WIFSIGNALED(status)) n = snprintf(x, sizeof(x), "X %s sig %d %ld\n", id, WTERMSIG(status), cpu_ms);
            else n = snprintf(x, sizeof(x), "X %s exit %d %ld\n", id, WEXITSTATUS(status), cpu_ms);
            off_t esz = lseek(efd, 0, SEEK_END);
            if (esz > 0) {
                if (esz > (1 << 20)) esz = 1 << 20;
                char *eb = malloc((size_t)esz);
                lseek(efd, 0, SEEK_SET);
                ssize_t r = read(efd, eb, (size_t)esz);
                if (r > 0) {
                    char h[64];
                    int hn = snprintf(h, sizeof(h), "E %zd\n", r);
                    wr(logfd, h, (size_t)hn);
                    wr(logfd, eb, (size_t)r);
                    wr(logfd, "\n", 1);
                }
                free(eb);
            }
            wr(logfd, x, (size_t)n);
            close(efd);
        }
        p = next;
    }
    unlink(errpath);
    close(logfd);
    free(all);
    return 0;
}
