/*
 * vh_linuxport: drives the real os/linux/lltd_port.c linked with the core (C04, Linux layer).
 * sendto/getifaddrs/freeifaddrs/gethostname/nanosleep are interposed in this executable:
 * frames are captured, addresses and host name are supplied by the record under test.
 *
 * stdin: one record per line:
 *   mac mtu iftype medium linkspeed flags ipv4hex|- ipv6hex|- hostnamehex|-
 * stdout: REC i mac=.. mtu=.. iftype=.. speed=.. chflags=.. rc=.. HELLO <hex>
 */
#define _GNU_SOURCE
#include <errno.h>
#include <ifaddrs.h>
#include <netinet/in.h>
#include <stdio.h>
#include <stdlib.h>
#include <string.h>
#include <sys/socket.h>
#include <time.h>
#include <unistd.h>

#include "lltdPort.h"
#include "lltdBlock.h"
#include "daemon/linux-main.h"

lltd_global_info_t globalInfo;
void lltd_verif_hook(const char *point, void *iface_ctx) { (void)point; (void)iface_ctx; }

static uint8_t cap[16384];
static size_t cap_len;
static int cap_n;
static char cur_host[300];
static int cur_host_len = -1;
static uint8_t cur_v4[4], cur_v6[16];
static int have_v4, have_v6;
static const char *cur_dev = "vt0";

/* A virtual CLOCK_MONOTONIC for the port under test: the sleep calls advance it with the semantics (and the argument
 * validation) of the C library, every transmit is stamped with it. */
static long long vclock_ns = 5000000000ll;
static long long send_at_ns[64];
static int send_op[64];

ssize_t sendto(int fd, const void *buf, size_t len, int flags, const struct sockaddr *addr, socklen_t alen) {
    (void)fd; (void)flags; (void)addr; (void)alen;
    if (cap_n < 64) { send_at_ns[cap_n] = vclock_ns; send_op[cap_n] = len >= 18 ? ((const uint8_t *)buf)[17] : -1; }
    cap_n++;
    cap_len = len < sizeof(cap) ? len : sizeof(cap);
    memcpy(cap, buf, cap_len);
    return (ssize_t)len;
}

static int ts_valid(const struct timespec *t) { return t && t->tv_sec >= 0 && t->tv_nsec >= 0 && t->tv_nsec < 1000000000l; }

int nanosleep(const struct timespec *req, struct timespec *rem) {
    (void)rem;
    if (!ts_valid(req)) { errno = EINVAL; return -1; }
    vclock_ns += (long long)req->tv_sec * 1000000000ll + req->tv_nsec;
    return 0;
}

int clock_nanosleep(clockid_t clk, int flags, const struct timespec *req, struct timespec *rem) {
    (void)clk; (void)rem;
    if (!ts_valid(req)) return EINVAL;
    long long t = (long long)req->tv_sec * 1000000000ll + req->tv_nsec;
    if (flags & TIMER_ABSTIME) { if (t > vclock_ns) vclock_ns = t; }
    else vclock_ns += t;
    return 0;
}

int usleep(useconds_t us) { vclock_ns += (long long)us * 1000; return 0; }
unsigned int sleep(unsigned int s_) { vclock_ns += (long long)s_ * 1000000000ll; return 0; }

/* waiting on nothing with a time-out is a sleep too (select / poll idioms); with descriptors the call returns "timed out" at once,
 * after the virtual wait - the harness has no readable descriptors */
#include <poll.h>
#include <sys/select.h>
int select(int n, fd_set *r, fd_set *w, fd_set *e, struct timeval *tv) {
    (void)n;
    if (tv) vclock_ns += (long long)tv->tv_sec * 1000000000ll + (long long)tv->tv_usec * 1000;
    if (r) FD_ZERO(r);
    if (w) FD_ZERO(w);
    if (e) FD_ZERO(e);
    return 0;
}
int pselect(int n, fd_set *r, fd_set *w, fd_set *e, const struct timespec *ts, const sigset_t *m) {
    (void)n; (void)m;
    if (ts) vclock_ns += (long long)ts->tv_sec * 1000000000ll + ts->tv_nsec;
    if (r) FD_ZERO(r);
    if (w) FD_ZERO(w);
    if (e) FD_ZERO(e);
    return 0;
}
int poll(struct pollfd *fds, nfds_t n, int ms) {
    for (nfds_t i = 0; i < n; i++) fds[i].revents = 0;
    if (ms > 0) vclock_ns += (long long)ms * 1000000ll;
    return 0;
}
int ppoll(struct pollfd *fds, nfds_t n, const struct timespec *ts, const sigset_t *m) {
    (void)m;
    for (nfds_t i = 0; i < n; i++) fds[i].revents = 0;
    if (ts) vclock_ns += (long long)ts->tv_sec * 1000000000ll + ts->tv_nsec;
    return 0;
}

int clock_gettime(clockid_t clk, struct timespec *ts) {
    (void)clk;
    vclock_ns += 1000;                       /* reading the clock takes a microsecond */
    ts->tv_sec = (time_t)(vclock_ns / 1000000000ll);
    ts->tv_nsec = (long)(vclock_ns % 1000000000ll);
    return 0;
}

int gethostname(char *name, size_t len) {
    if (cur_host_len < 0) return -1;
    size_t n = (size_t)cur_host_len < len ? (size_t)cur_host_len : len;
    memcpy(name, cur_host, n);
    if (n < len) name[n] = 0;
    return 0;
}

static struct ifaddrs ifa[6];
static struct sockaddr_in sin4[2];
static struct sockaddr_in6 sin6[2];

int getifaddrs(struct ifaddrs **out) {
    memset(ifa, 0, sizeof(ifa));
    int n = 0;
    /* a foreign interface first, an entry without address, then ours */
    sin4[0].sin_family = AF_INET; sin4[0].sin_addr.s_addr = 0x0100007f;
    ifa[n].ifa_name = "lo"; ifa[n].ifa_addr = (struct sockaddr *)&sin4[0]; n++;
    ifa[n].ifa_name = (char *)cur_dev; ifa[n].ifa_addr = NULL; n++;
    sin6[0].sin6_family = AF_INET6; memset(&sin6[0].sin6_addr, 0x11, 16);
    ifa[n].ifa_name = "other0"; ifa[n].ifa_addr = (struct sockaddr *)&sin6[0]; n++;
    if (have_v6) {
        sin6[1].sin6_family = AF_INET6; memcpy(&sin6[1].sin6_addr, cur_v6, 16);
        ifa[n].ifa_name = (char *)cur_dev; ifa[n].ifa_addr = (struct sockaddr *)&sin6[1]; n++;
    }
    if (have_v4) {
        sin4[1].sin_family = AF_INET; memcpy(&sin4[1].sin_addr, cur_v4, 4);
        ifa[n].ifa_name = (char *)cur_dev; ifa[n].ifa_addr = (struct sockaddr *)&sin4[1]; n++;
    }
    for (int i = 0; i + 1 < n; i++) ifa[i].ifa_next = &ifa[i + 1];
    *out = &ifa[0];
    return 0;
}

void freeifaddrs(struct ifaddrs *p) { (void)p; }

static int hexval(int c) { return c >= '0' && c <= '9' ? c - '0' : c >= 'a' && c <= 'f' ? c - 'a' + 10 : -1; }
static size_t unhex(const char *s, uint8_t *out, size_t cap_) {
    size_t n = 0;
    if (!strcmp(s, "-")) return 0;
    while (s[0] && s[1] && hexval(s[0]) >= 0 && hexval(s[1]) >= 0 && n < cap_) { out[n++] = (uint8_t)(hexval(s[0]) << 4 | hexval(s[1])); s += 2; }
    return n;
}

int main(void) {
    char line[4096];
    long rec = 0;
    while (fgets(line, sizeof(line), stdin)) {
        char macs[32], v4s[64], v6s[64], hosts[1024];
        unsigned long mtu, iftype, medium, speed, flags;
        if (sscanf(line, "%31s %lu %lu %lu %lu %lu %63s %63s %1023s", macs, &mtu, &iftype, &medium, &speed, &flags, v4s, v6s, hosts) != 9) continue;
        network_interface_t nif;
        memset(&nif, 0, sizeof(nif));
        nif.deviceName = cur_dev;
        nif.ifType = (uint32_t)iftype;
        nif.socket = 3;
        nif.MediumType = (uint32_t)medium;
        nif.MTU = (uint32_t)mtu;
        nif.LinkSpeed = (uint32_t)speed;
        nif.flags = (uint32_t)flags;
        unhex(macs, nif.macAddress, 6);
        have_v4 = unhex(v4s, cur_v4, 4) == 4;
        have_v6 = unhex(v6s, cur_v6, 16) == 16;
        if (!strcmp(hosts, "!")) cur_host_len = -1;
        else cur_host_len = (int)unhex(hosts, (uint8_t *)cur_host, sizeof(cur_host) - 1);
        nif.recvBuffer = malloc(nif.MTU ? nif.MTU : 1);

        ethernet_address_t gm; size_t gmtu = 0; uint32_t gtype = 0, gspeed = 0;
        memset(&gm, 0, sizeof(gm));
        int rc1 = lltd_port_get_mac_address(&nif, &gm);
        int rc2 = lltd_port_get_mtu(&nif, &gmtu);
        int rc3 = lltd_port_get_if_type(&nif, &gtype);
        int rc4 = lltd_port_get_link_speed_100bps(&nif, &gspeed);
        uint32_t gfl = lltd_port_get_characteristics_flags(&nif);

        /* a Discover from a mapper, end to end through the Linux port */
        uint8_t *b = nif.recvBuffer;
        static const uint8_t M[6] = {0x02, 0xaa, 0xbb, 0xcc, 0xdd, 0x01};
        memset(b, 0, nif.MTU);
        memset(b, 0xff, 6); memcpy(b + 6, M, 6); b[12] = 0x88; b[13] = 0xd9; b[14] = 1; b[15] = 0; b[16] = 0; b[17] = 0;
        memset(b + 18, 0xff, 6); memcpy(b + 24, M, 6); b[30] = 0; b[31] = 7; b[32] = 0; b[33] = 9; b[34] = 0; b[35] = 0;
        cap_n = 0; cap_len = 0;
        /* errno holds whatever some earlier, unrelated call left there - often a "transient" code; it means nothing unless the
         * call at hand has just failed */
        { static const int stale[] = {0, EINTR, EAGAIN, ENOBUFS, ENOMEM, EINVAL, EWOULDBLOCK}; errno = stale[rec % 7]; }
        parseFrame(b, &nif);
        printf("REC %ld mac=%02x%02x%02x%02x%02x%02x mtu=%zu iftype=%u speed=%u chflags=%u rc=%d%d%d%d sends=%d HELLO ",
               rec, gm.a[0], gm.a[1], gm.a[2], gm.a[3], gm.a[4], gm.a[5], gmtu, gtype, gspeed, gfl, rc1, rc2, rc3, rc4, cap_n);
        for (size_t i = 0; i < cap_len; i++) printf("%02x", cap[i]);
        printf("\n");
        /* an Emit through the Linux port at a chosen phase of the clock's second: every pause is waited in full */
        {
            static const uint8_t S[6] = {0x02, 0x51, 0x52, 0x53, 0x54, 0x55};
            unsigned pauses[3] = {(unsigned)(rec * 37 % 256), (unsigned)(rec * 91 % 256), (unsigned)((rec * 13 + 255) % 256)};
            long long phase_us = (rec % 4 == 3) ? 1000000ll - 1 - (rec * 7919ll) % 300000ll : (rec * 104729ll) % 1000000ll;
            vclock_ns = (vclock_ns / 1000000000ll + 2) * 1000000000ll + phase_us * 1000ll;
            size_t n = 0;
            memcpy(b, nif.macAddress, 6); memcpy(b + 6, M, 6); b[12] = 0x88; b[13] = 0xd9; b[14] = 1; b[15] = 0; b[16] = 0; b[17] = 2;
            memcpy(b + 18, nif.macAddress, 6); memcpy(b + 24, M, 6); b[30] = 0; b[31] = 9; b[32] = 0; b[33] = 3; n = 34;
            for (int k = 0; k < 3; k++) { b[n++] = (uint8_t)(k & 1); b[n++] = (uint8_t)pauses[k]; memcpy(b + n, S, 6); n += 6; memcpy(b + n, M, 6); n += 6; }
            cap_n = 0;
            errno = (rec % 3 == 1) ? EINTR : (rec % 3 == 2) ? ENOBUFS : 0;
            long long t0 = vclock_ns;
            if (nif.MTU >= 80) parseFrame(b, &nif);
            printf("EMIT %ld phase_us=%lld pauses=%u,%u,%u sends=%d at_us=", rec, phase_us, pauses[0], pauses[1], pauses[2], cap_n);
            for (int k = 0; k < cap_n && k < 8; k++) printf("%s%lld:%d", k ? "," : "", (send_at_ns[k] - t0) / 1000, send_op[k]);
            printf("\n");
        }
        free(nif.recvBuffer);
        rec++;
    }
    return 0;
}
