/*
 * vh_sweep: in-process exhaustive sweeps with online oracles written
 * independently of the core (DESIGN.md 2.2).  Output protocol on stdout:
 *   STAT <name> <integer>
 *   VIOL <key> <detail...>
 *   SAMPLE <text>
 */
#define _GNU_SOURCE
#include <stdarg.h>
#include <stdlib.h>
#include <string.h>
#include <sys/wait.h>
#include <unistd.h>

#include "vport.h"
#include "lltdBlock.h"

static const uint8_t BCAST[6] = {0xff, 0xff, 0xff, 0xff, 0xff, 0xff};
static const uint8_t OWN[6] = {0x02, 0x11, 0x22, 0x33, 0x44, 0x55};
static const uint8_t MX[6] = {0x02, 0x0a, 0x0a, 0x0a, 0x0a, 0x01};
static const uint8_t MY[6] = {0x02, 0x0b, 0x0b, 0x0b, 0x0b, 0x02};
static const uint8_t MZ[6] = {0x02, 0x0c, 0x0c, 0x0c, 0x0c, 0x03};

static unsigned long long n_viol = 0;
/* per-key cap: the first few witnesses of every key are printed, all are counted */
#define VK_MAX 512
static struct { char key[160]; unsigned long long n; } vk[VK_MAX];
static int nvk = 0;
static int viol_per_key = 4;

static void viol(const char *key, const char *fmt, ...) {
    n_viol++;
    int i;
    for (i = 0; i < nvk; i++) if (!strcmp(vk[i].key, key)) break;
    if (i == nvk) {
        if (nvk == VK_MAX) return;
        snprintf(vk[i].key, sizeof(vk[i].key), "%s", key);
        vk[i].n = 0;
        nvk++;
    }
    vk[i].n++;
    if (vk[i].n > (unsigned long long)viol_per_key) return;
    va_list ap;
    printf("VIOL %s ", key);
    va_start(ap, fmt);
    vprintf(fmt, ap);
    va_end(ap);
    printf("\n");
    fflush(stdout);
}

static void viol_summary(void) {
    for (int i = 0; i < nvk; i++) printf("VIOLCOUNT %s %llu\n", vk[i].key, vk[i].n);
}

static void stat_ull(const char *name, unsigned long long v) { printf("STAT %s %llu\n", name, v); }

/* byte-level frame construction (MS-LLTD offsets, not the repo's structs) */
static size_t mk_base(uint8_t *b, const uint8_t *edst, const uint8_t *esrc, uint8_t tos, uint8_t op,
                      const uint8_t *rdst, const uint8_t *rsrc, uint16_t seq) {
    memcpy(b, edst, 6); memcpy(b + 6, esrc, 6);
    b[12] = 0x88; b[13] = 0xd9; b[14] = 1; b[15] = tos; b[16] = 0; b[17] = op;
    memcpy(b + 18, rdst, 6); memcpy(b + 24, rsrc, 6);
    b[30] = (uint8_t)(seq >> 8); b[31] = (uint8_t)seq;
    return 32;
}

static size_t mk_discover(uint8_t *b, const uint8_t *src, uint8_t tos, uint16_t gen, uint16_t xid) {
    size_t n = mk_base(b, BCAST, src, tos, 0, BCAST, src, xid);
    b[n++] = (uint8_t)(gen >> 8); b[n++] = (uint8_t)gen;
    b[n++] = 0; b[n++] = 0;
    return n;
}

static void ifc_init(vp_iface *f, int idx, size_t mtu) {
    memset(f, 0, sizeof(*f));
    f->idx = idx; f->defined = 1; f->mtu = mtu;
    memcpy(f->mac, OWN, 6);
    f->iftype = 6; f->speed = 10000;
    f->rxcap = mtu;
    f->rxbuf = malloc(mtu);
    vp_fill_stream(f->rxbuf, mtu, 77 + (uint32_t)idx);
}

/* capture of the frames sent during one call */
static uint8_t last_frame[16384];
static size_t last_len;
static unsigned sends_in_call;
static void hook_keep_last(vp_iface *ifc, const uint8_t *frame, size_t len) {
    (void)ifc;
    sends_in_call++;
    last_len = len;
    memcpy(last_frame, frame, len < sizeof(last_frame) ? len : sizeof(last_frame));
}

static void feed(vp_iface *f, const uint8_t *frame, size_t len) {
    if (len > f->rxcap) len = f->rxcap;
    memcpy(f->rxbuf, frame, len);
    sends_in_call = 0;
    last_len = 0;
    vp_begin_input();
    parseFrame(f->rxbuf, f);
}

static int answered_with_hello(void) {
    return sends_in_call >= 1 && last_len >= 32 && last_frame[17] == 1;
}

/* ===================================================================== C05 */

static int c05_relevant(int tos, int op) {
    return (tos == 0 || tos == 1) && (op == 0 || op == 2 || op == 6 || op == 8 || op == 0x0B);
}

static void c05_child(int tos) {
    static vp_iface ifs[512];
    uint8_t fr[256], d[64];
    unsigned long long probes = 0, nontrivial = 0;
    for (int op = 0; op < 256; op++) {
        if (c05_relevant(tos, op)) continue;
        size_t fl = mk_base(fr, OWN, MZ, (uint8_t)tos, (uint8_t)op, OWN, MZ, 0x0101);
        vp_fill_stream(fr + fl, 64, (uint32_t)(tos * 256 + op + 1));
        fl += 64;
        /* state idle: the foreign frame must not establish a mapper */
        vp_iface *a = &ifs[2 * op];
        ifc_init(a, 0, 1500);
        feed(a, fr, fl);
        if (sends_in_call) { /* not C05's question (C02), ignore */ }
        size_t dl = mk_discover(d, MX, 0, 7, 0x2222);
        feed(a, d, dl);
        probes++;
        if (!answered_with_hello())
            viol("C05:step:idle:foreign-frame-blocks-next-discover",
                 "tos=%d opcode=%d from Z while idle, then Discover from X got %u frames (expected a Hello)", tos, op, sends_in_call);
        else nontrivial++;
        /* state active(X): must neither release nor replace the mapper */
        vp_iface *b = &ifs[2 * op + 1];
        ifc_init(b, 1, 1500);
        dl = mk_discover(d, MX, 0, 7, 0x2222);
        feed(b, d, dl);
        if (!answered_with_hello()) {
            viol("C05:step:setup", "initial Discover from X on a fresh interface not answered (tos=%d op=%d)", tos, op);
            continue;
        }
        feed(b, fr, fl);
        dl = mk_discover(d, MY, 0, 9, 0x3333);
        feed(b, d, dl);
        probes++;
        int ok = 1;
        if (sends_in_call != 0) {
            ok = 0;
            viol("C05:step:active:foreign-frame-releases-or-replaces-mapper",
                 "tos=%d opcode=%d from Z while X is active, then Discover from Y got %u frames (expected silence)", tos, op, sends_in_call);
        }
        dl = mk_discover(d, MX, 0, 7, 0x2223);
        feed(b, d, dl);
        if (!answered_with_hello()) {
            ok = 0;
            viol("C05:step:active:mapper-lost-after-foreign-frame",
                 "tos=%d opcode=%d from Z while X is active, then Discover from X got %u frames (expected a Hello)", tos, op, sends_in_call);
        }
        if (ok) nontrivial++;
        free(a->rxbuf); free(b->rxbuf);
    }
    stat_ull("probes", probes);
    stat_ull("cases", probes);
    stat_ull("distinct_nontrivial", nontrivial);
    stat_ull("violations", n_viol);
    viol_summary();
    fflush(stdout);
}

static int sweep_c05(int argc, char **argv) {
    int lo = argc > 0 ? atoi(argv[0]) : 0, hi = argc > 1 ? atoi(argv[1]) : 256;
    vp_send_hook = hook_keep_last;
    for (int tos = lo; tos < hi; tos++) {
        fflush(stdout);
        pid_t pid = fork();
        if (pid == 0) { c05_child(tos); exit(0); }
        int st = 0;
        waitpid(pid, &st, 0);
        if (!(WIFEXITED(st) && WEXITSTATUS(st) == 0))
            printf("CRASH tos=%d status=%d\n", tos, st);
    }
    if (lo == 0) printf("SAMPLE idle: frame(tos=2,op=0) from Z, Discover(tos=0) from X -> Hello expected; "
                        "active(X): frame from Z, Discover from Y -> silence, Discover from X -> Hello\n");
    return 0;
}

/* ===================================================================== C08 */

static struct {
    const uint8_t *data; size_t S; unsigned O; size_t mtu; uint16_t seq; int seen; int bad;
} q8;

static void hook_c08(vp_iface *ifc, const uint8_t *fr, size_t len) {
    (void)ifc;
    q8.seen++;
    size_t P = q8.mtu - 34;
    size_t remain = q8.S > q8.O ? q8.S - q8.O : 0;
    size_t L = remain < P ? remain : P;
    int more = remain > L;
    unsigned field = (unsigned)L | (more ? 0x8000u : 0);
    const char *why = NULL;
    if (len != 34 + L) why = "frame-length";
    else if (fr[17] != 0x0C) why = "opcode";
    else if (fr[12] != 0x88 || fr[13] != 0xd9 || fr[14] != 1 || fr[16] != 0) why = "header";
    else if (((unsigned)fr[30] << 8 | fr[31]) != q8.seq) why = "sequence-number";
    else if (((unsigned)fr[32] << 8 | fr[33]) != field) why = (((unsigned)fr[32] << 8 | fr[33]) & 0x7fff) != L ? "length-field" : "more-flag";
    else if (L && memcmp(fr + 34, q8.data + q8.O, L) != 0) why = "payload-bytes";
    else if (memcmp(fr + 24, OWN, 6) != 0) why = "real-source";
    if (why && !q8.bad) {
        q8.bad = 1;
        char key[96];
        snprintf(key, sizeof(key), "C08:call:%s", why);
        viol(key, "mtu=%zu size=%zu offset=%u: got len=%zu field=%02x%02x expected len=%zu field=%04x",
             q8.mtu, q8.S, q8.O, len, len > 33 ? fr[32] : 0, len > 33 ? fr[33] : 0, 34 + L, field);
    }
}

/* args: mtu s_lo s_hi smode omode type
 * smode 0: every size; 1: sizes within +-2 of a multiple of the payload (and 0..3, 32766..32768)
 * omode 0: every offset 0..65535; 1: boundary offsets */
static int sweep_c08(int argc, char **argv) {
    if (argc < 6) return 3;
    size_t mtu = strtoul(argv[0], NULL, 0);
    size_t slo = strtoul(argv[1], NULL, 0), shi = strtoul(argv[2], NULL, 0);
    int smode = atoi(argv[3]), omode = atoi(argv[4]);
    int type = (int)strtoul(argv[5], NULL, 0);
    size_t P = mtu - 34;
    uint8_t *data = malloc(40000);
    vp_fill_stream(data, 40000, 4242);
    uint8_t req[64];
    unsigned long long calls = 0, nontriv = 0, sizes = 0;
    vp_send_hook = hook_c08;
    vp_fill_mode = -1;
    static unsigned offs[70000];
    int nctx = 0;
    vp_iface *pool = calloc(4100, sizeof(vp_iface));
    for (size_t S = slo; S < shi; S++) {
        if (smode == 1) {
            size_t m = S % P;
            if (!(m <= 2 || m >= P - 2 || S <= 3 || S >= 32766)) continue;
        }
        sizes++;
        if (nctx >= 4096) { /* bounded linear state list in the core */
            break;
        }
        vp_iface *f = &pool[nctx++];
        ifc_init(f, 0, mtu);
        if (type == 0x0E) { vp_glob.icon.p = data; vp_glob.icon.len = S; }
        else if (type == 0x11) { vp_glob.fname.p = data; vp_glob.fname.len = S; }
        size_t no = 0;
        if (omode == 0) { for (unsigned o = 0; o < 65536; o++) offs[no++] = o; }
        else {
            unsigned cand[] = {0, 1, 2, 0x7FFE, 0x7FFF, 0x8000, 0x8001, 0xFFFE, 0xFFFF};
            for (size_t i = 0; i < sizeof(cand) / sizeof(cand[0]); i++) offs[no++] = cand[i];
            for (long d = -3; d <= 3; d++) { long o = (long)S + d; if (o >= 0 && o < 65536) offs[no++] = (unsigned)o; }
            for (size_t k = 0; k * P < 65536 + P; k++)
                for (long d = -1; d <= 1; d++) { long o = (long)(k * P) + d; if (o >= 0 && o < 65536) offs[no++] = (unsigned)o; }
            for (size_t k = 1; k * P <= S + P; k++)
                for (long d = -1; d <= 1; d++) { long o = (long)S - (long)(k * P) + d; if (o >= 0 && o < 65536) offs[no++] = (unsigned)o; }
            uint32_t rs = (uint32_t)(S * 2654435761u + 1);
            for (int k = 0; k < 24; k++) offs[no++] = vp_prng(&rs) & 0xFFFF;
        }
        for (size_t i = 0; i < no; i++) {
            unsigned O = offs[i];
            uint16_t seq = (uint16_t)(1 + ((S * 31 + O) % 65535));
            size_t n = mk_base(req, OWN, MX, 0, 0x0B, OWN, MX, seq);
            req[n++] = (uint8_t)type; req[n++] = 0; req[n++] = (uint8_t)(O >> 8); req[n++] = (uint8_t)O;
            q8.data = data; q8.S = S; q8.O = O; q8.mtu = mtu; q8.seq = seq; q8.seen = 0; q8.bad = 0;
            memcpy(f->rxbuf, req, n);
            vp_begin_input();
            parseFrame(f->rxbuf, f);
            calls++;
            if (q8.seen != 1)
                viol("C08:call:frames-per-request", "mtu=%zu size=%zu offset=%u: %d frames sent (expected 1)", mtu, S, O, q8.seen);
            else if (!q8.bad && O < S) nontriv++;
        }
        free(f->rxbuf);
        f->rxbuf = NULL;
    }
    /* sequence number zero is not answered */
    {
        vp_iface *f = &pool[nctx++];
        ifc_init(f, 0, mtu);
        vp_glob.icon.p = data; vp_glob.icon.len = 1000;
        size_t n = mk_base(req, OWN, MX, 0, 0x0B, OWN, MX, 0);
        req[n++] = 0x0E; req[n++] = 0; req[n++] = 0; req[n++] = 0;
        q8.seen = 0; q8.bad = 1;
        memcpy(f->rxbuf, req, n);
        vp_begin_input();
        parseFrame(f->rxbuf, f);
        calls++;
        if (q8.seen != 0) viol("C08:call:seq-zero-answered", "mtu=%zu: request with sequence number 0 got %d frames", mtu, q8.seen);
    }
    vp_glob.icon.p = NULL; vp_glob.fname.p = NULL;
    stat_ull("calls", calls);
    stat_ull("cases", calls);
    stat_ull("sizes", sizes);
    stat_ull("distinct_nontrivial", nontriv);
    stat_ull("violations", n_viol);
    if (slo == 0) printf("SAMPLE mtu=%zu type=%#x size in [%zu,%zu) smode=%d omode=%d: QueryLargeTlv(offset O, seq q) -> "
                         "one frame, L=min(mtu-34,max(0,S-O)), payload=D[O:O+L], more iff S-O>L\n", mtu, type, slo, shi, smode, omode);
    return 0;
}

/* ===================================================================== C11 */

static int c11_expect(int acking, int changed) {
    return acking ? (changed ? 5 : 3) : (changed ? 4 : 2);
}

/* args: filler_seed nmax */
static int sweep_c11(int argc, char **argv) {
    uint32_t fseed = argc > 0 ? (uint32_t)strtoul(argv[0], NULL, 0) : 1;
    int nmax = argc > 1 ? atoi(argv[1]) : 240;
    size_t mtu = 1500;
    /* The frame occupies the first MTU bytes; the backing store is larger so that a wrong
     * stride yields a wrong answer (C11's question) instead of a sanitizer abort (C01's). */
    size_t backing = mtu + 32768;
    uint8_t *buf = malloc(backing);
    memset(buf, 0x80, backing);
    unsigned long long cases = 0, nontriv = 0, clk_cases = 0, straddle = 0, odd_cases = 0;
    const uint16_t GEN = 0x0102, XID = 0x0a0b;
    static const char *vname[] = {"empty", "same-seq", "different-seq", "other-generation", "other-mapper",
                                  "hole-then-same-seq", "hole-then-different-seq", "full-table-mapper-last-different-seq",
                                  "full-table-without-mapper", "same-seq-session-complete", "different-seq-session-complete",
                                  "same-seq-every-flag-set", "different-seq-0x8000-apart", "different-seq-0x7fff-apart",
                                  "different-seq-0x8001-apart", "different-seq-all-bits-flipped", "different-seq-0xffff-apart-complete",
                                  "other-generation-0", "other-generation-0xffff", "other-generation-byte-swapped",
                                  "other-generation-0-session-complete"};
    static const uint16_t other_gen[] = {0, 0xffff, 0x0201, 0};
    static const uint16_t far_delta[] = {0x8000, 0x7fff, 0x8001, 0, 0xffff};
    for (int variant = 0; variant < 21; variant++) {
        session_table *tab = session_table_create();
        if (!tab) { viol("C11:setup", "session_table_create failed"); return 0; }
        switch (variant) {
            case 1: session_table_add(tab, MX, GEN, XID); break;
            case 2: session_table_add(tab, MX, GEN, (uint16_t)(XID + 1)); break;
            case 3: session_table_add(tab, MX, (uint16_t)(GEN + 1), (uint16_t)(XID + 1)); break;
            case 4: session_table_add(tab, MY, GEN, (uint16_t)(XID + 1)); break;
            case 5: case 6:      /* a removed session leaves a hole in front of the mapper's entry */
                session_table_add(tab, MY, GEN, 1); session_table_add(tab, MZ, GEN, 1);
                session_table_add(tab, MX, GEN, (uint16_t)(variant == 5 ? XID : XID + 1));
                session_table_remove(tab, MY, GEN);
                break;
            case 7: case 8:
                for (int k = 0; k < 15; k++) { uint8_t o[6] = {2, 0x77, 0, 0, 0, (uint8_t)k}; session_table_add(tab, o, (uint16_t)(GEN + (k & 1)), 9); }
                if (variant == 7) session_table_add(tab, MX, GEN, (uint16_t)(XID + 1));
                else { uint8_t o[6] = {2, 0x77, 0, 0, 1, 0}; session_table_add(tab, o, GEN, 9); }
                break;
            case 12: case 13: case 14: case 15: case 16: {   /* the known sequence number is far from the Discover's, not next to it */
                uint16_t other = variant == 15 ? (uint16_t)~XID : (uint16_t)(XID + far_delta[variant - 12]);
                session_entry *e = session_table_add(tab, MX, GEN, other);
                if (e && variant == 16) e->complete = true;
                session_table_update_complete_status(tab);
                break;
            }
            case 17: case 18: case 19: case 20: {   /* the mapper is known under another generation number only: 0, all ones, the bytes swapped */
                session_entry *e = session_table_add(tab, MX, other_gen[variant - 17], (uint16_t)(XID + 1));
                if (e && variant == 20) e->complete = true;
                session_table_update_complete_status(tab);
                break;
            }
            case 9: case 10: case 11: {    /* the session is already complete (the daemon marks it after an acknowledging Discover) */
                session_entry *e = session_table_add(tab, MX, GEN, (uint16_t)(variant == 10 ? XID + 1 : XID));
                if (e) { e->complete = true; if (variant == 11) { e->state = 0xFF; } }
                session_table_update_complete_status(tab);
                break;
            }
        }
        int changed = (variant == 2 || variant == 6 || variant == 7 || variant == 10 || (variant >= 12 && variant < 17));
        /* the classification is a function of (frame, table, own address): the clock moves on between the moment the
         * sessions were recorded and the Discover being classified, no expiry tick in between */
        static const uint64_t clk_adv[] = {0, 59000, 1000, 1000, 1000, 3539000ull, 1ull << 33};
        uint64_t clk_total = 0;
        for (int ci = 0; ci < 7; ci++) {
        vp_now_ms += clk_adv[ci]; clk_total += clk_adv[ci];
        for (int n = 1; n <= nmax; n++) {
            if (((variant >= 5 && variant < 9) || variant >= 12 || ci > 0) && !(n <= 3 || n == 7 || n == 100 || n == nmax)) continue;
            for (int p = -1; p < n; p++) {
                vp_fill_stream(buf, mtu, fseed + 13);
                size_t o = mk_base(buf, BCAST, MX, 0, 0, BCAST, MX, XID);
                buf[o++] = GEN >> 8; buf[o++] = GEN & 255;
                buf[o++] = (uint8_t)(n >> 8); buf[o++] = (uint8_t)n;
                /* fillers: every byte >= 0x80, the own address has every byte < 0x80, so it
                 * cannot appear at any alignment except where placed; the tail beyond the
                 * list is filled the same way */
                uint32_t s = fseed * 2654435761u + (uint32_t)n * 977u + (uint32_t)(p + 1);
                for (size_t i = 36; i < mtu; i++) buf[i] = (uint8_t)(0x80 | (vp_prng(&s) >> 9));
                if (p >= 0) memcpy(buf + 36 + 6 * p, OWN, 6);
                int r = derive_session_event(buf, tab, OWN);
                int e = c11_expect(p >= 0, changed);
                cases++;
                if (r != e) {
                    char key[128];
                    snprintf(key, sizeof(key), "C11:discover:%s:table=%s",
                             p >= 0 ? (r == c11_expect(0, changed) ? "own-address-in-list-not-recognised" : "wrong-event")
                                    : (r == c11_expect(1, changed) ? "absent-address-recognised" : "wrong-event"),
                             vname[variant]);
                    viol(key, "count=%d position=%d table=%s clock %llu ms after the sessions were recorded: derive_session_event=%d expected %d",
                         n, p, vname[variant], (unsigned long long)clk_total, r, e);
                } else if (p >= 0) nontriv++;
                if (ci > 0) clk_cases++;
            }
        }
        }
        /* unusual entries in front of the own address: all zero, broadcast, the own address with one bit flipped, the own
         * address repeated - the list is searched to its end, an odd entry is just another station */
        if (variant == 0 || variant == 2 || variant == 9) {
            static const int ns2[] = {2, 3, 7, 240};
            for (int ni = 0; ni < 4; ni++) for (int kind = 0; kind < 4; kind++) for (int p = 1; p < (ns2[ni] <= nmax ? ns2[ni] : nmax); p += (ns2[ni] > 7 ? 37 : 1)) {
                int n = ns2[ni] <= nmax ? ns2[ni] : nmax;
                vp_fill_stream(buf, mtu, fseed + 13);
                size_t o = mk_base(buf, BCAST, MX, 0, 0, BCAST, MX, XID);
                buf[o++] = GEN >> 8; buf[o++] = GEN & 255;
                buf[o++] = (uint8_t)(n >> 8); buf[o++] = (uint8_t)n;
                uint32_t s3 = fseed * 7919u + (uint32_t)n * 13u + (uint32_t)p;
                for (size_t i = 36; i < mtu; i++) buf[i] = (uint8_t)(0x80 | (vp_prng(&s3) >> 9));
                uint8_t odd[6];
                if (kind == 0) memset(odd, 0, 6);
                else if (kind == 1) memset(odd, 0xff, 6);
                else { memcpy(odd, OWN, 6); odd[kind == 2 ? 0 : 5] ^= (kind == 2 ? 0x02 : 0x01); }
                int q = (p * 5 + ni) % p;                 /* somewhere in front of the own address */
                memcpy(buf + 36 + 6 * q, odd, 6);
                memcpy(buf + 36 + 6 * p, OWN, 6);
                int r = derive_session_event(buf, tab, OWN);
                int e = c11_expect(1, changed);
                cases++; odd_cases++;
                if (r != e) {
                    char key[128];
                    static const char *kn[] = {"all-zero", "broadcast", "own-address-first-byte-flipped", "own-address-last-bit-flipped"};
                    snprintf(key, sizeof(key), "C11:discover:own-address-not-recognised-behind-%s-entry:table=%s", kn[kind], vname[variant]);
                    viol(key, "count=%d, %s entry at position %d, own address at position %d: derive_session_event=%d expected %d", n, kn[kind], q, p, r, e);
                } else nontriv++;
            }
        }
        /* the own address at a byte offset that is not a multiple of six: it straddles two neighbouring entries and is
         * listed in neither - the Discover does not acknowledge */
        if (variant == 0 || variant == 2 || variant == 9) {
            static const int ns[] = {2, 3, 7, 100, 240};
            for (int ni = 0; ni < 5; ni++) {
                int n = ns[ni] <= nmax ? ns[ni] : nmax;
                int ks[3] = {0, n / 2 > n - 2 ? n - 2 : n / 2, n - 2};
                for (int ki = 0; ki < 3; ki++) for (int sh = 1; sh <= 5; sh++) {
                    int k = ks[ki];
                    vp_fill_stream(buf, mtu, fseed + 13);
                    size_t o = mk_base(buf, BCAST, MX, 0, 0, BCAST, MX, XID);
                    buf[o++] = GEN >> 8; buf[o++] = GEN & 255;
                    buf[o++] = (uint8_t)(n >> 8); buf[o++] = (uint8_t)n;
                    uint32_t s2 = fseed * 40503u + (uint32_t)n * 31u + (uint32_t)sh;
                    for (size_t i = 36; i < mtu; i++) buf[i] = (uint8_t)(0x80 | (vp_prng(&s2) >> 9));
                    memcpy(buf + 36 + 6 * k + sh, OWN, 6);
                    int r = derive_session_event(buf, tab, OWN);
                    int e = c11_expect(0, changed);
                    cases++; straddle++;
                    if (r != e) {
                        char key[128];
                        snprintf(key, sizeof(key), "C11:discover:%s:table=%s", r == c11_expect(1, changed) ? "address-straddling-two-entries-recognised" : "wrong-event", vname[variant]);
                        viol(key, "count=%d, own address at byte offset %d of the list (entries %d and %d, shifted by %d): derive_session_event=%d expected %d",
                             n, 6 * k + sh, k, k + 1, sh, r, e);
                    } else nontriv++;
                }
            }
        }
        session_table_destroy(tab);
    }
    /* every opcode x both reset destinations */
    for (int op = 0; op < 256; op++) {
        for (int bc = 0; bc < 2; bc++) {
            vp_fill_stream(buf, mtu, fseed + 99);
            mk_base(buf, bc ? BCAST : OWN, MX, 0, (uint8_t)op, bc ? BCAST : OWN, MX, 5);
            buf[32] = 0; buf[33] = 1; buf[34] = 0; buf[35] = 1; memcpy(buf + 36, MY, 6);
            int r = derive_session_event(buf, NULL, OWN);
            cases++;
            int ok;
            if (op == 8) ok = (r == (bc ? 6 : 1));
            else if (op == 1) ok = (r == 7);
            else if (op == 0) ok = (r == 2);          /* one station, not ours */
            else ok = (r < 0);
            if (!ok) {
                char key[96];
                snprintf(key, sizeof(key), "C11:opcode:%s", op == 8 ? "reset-classification" : op == 1 ? "hello" : op == 0 ? "discover" : "non-session-opcode-yields-event");
                viol(key, "opcode=%d real-destination=%s: derive_session_event=%d", op, bc ? "broadcast" : "own", r);
            } else nontriv++;
        }
    }
    /* a table with a long life behind it: the mapper's session was looked up and recorded, then the table was cleared (a
     * Reset), or other sessions came and went, N times - N around the widths a counter or an index might have - and the
     * mapper's Discover is classified again; only what the table holds now counts */
    unsigned long long hist_cases = 0;
    {
        static const long churn_n[] = {1, 2, 15, 16, 17, 255, 256, 257, 511, 512, 513, 65535, 65536, 65537, 131072};
        static const char *mname[] = {"table-cleared", "other-session-recorded-and-table-cleared", "other-session-recorded-and-removed",
                                      "own-session-recorded-and-table-cleared", "other-sessions-fill-the-table-and-are-removed"};
        for (size_t ni = 0; ni < sizeof(churn_n) / sizeof(churn_n[0]); ni++) for (int mode = 0; mode < 5; mode++) for (int ack = 0; ack < 2; ack++) {
            long N = churn_n[ni];
            if (mode == 4 && N > 4096) continue;
            session_table *tab = session_table_create();
            if (!tab) { viol("C11:setup", "session_table_create failed"); return 0; }
            int first = 1;
            for (int step = 0; step < 3; step++) {
                /* step 0: first Discover (nothing known); step 1: after the churn, same sequence number; step 2: another number */
                uint16_t xid = (uint16_t)(step == 2 ? XID + 1 : XID);
                vp_fill_stream(buf, mtu, fseed + 13);
                size_t o = mk_base(buf, BCAST, MX, 0, 0, BCAST, MX, xid);
                buf[o++] = GEN >> 8; buf[o++] = GEN & 255; buf[o++] = 0; buf[o++] = 1;
                for (size_t i = 36; i < 200; i++) buf[i] = 0x80;
                if (ack) memcpy(buf + 36, OWN, 6);
                int known = (step > 0 && mode == 2) || (step > 0 && mode == 4) || step == 2;      /* is the mapper's session in the table now? */
                int changed = step == 2;
                if (step == 2 && !(mode == 2 || mode == 4)) session_table_add(tab, MX, GEN, XID);   /* recorded again under the old number */
                int r = derive_session_event(buf, tab, OWN);
                int e = c11_expect(ack, known && changed);
                cases++; hist_cases++;
                if (r != e) {
                    char key[160];
                    snprintf(key, sizeof(key), "C11:discover:wrong-event-after-table-history:%s", mname[mode]);
                    viol(key, "%s x %ld, then Discover (%s, sequence number %s): derive_session_event=%d expected %d",
                         mname[mode], step == 0 ? 0 : N, ack ? "acknowledging" : "not acknowledging", step == 2 ? "changed" : "as recorded", r, e);
                    break;
                } else nontriv++;
                if (step == 0) {
                    session_table_add(tab, MX, GEN, XID);
                    for (long k = 0; k < N; k++) {
                        uint8_t o6[6] = {2, 0x66, (uint8_t)(k >> 24), (uint8_t)(k >> 16), (uint8_t)(k >> 8), (uint8_t)k};
                        switch (mode) {
                            case 0: session_table_clear(tab); break;
                            case 1: session_table_add(tab, o6, GEN, 3); session_table_clear(tab); break;
                            case 2: session_table_add(tab, o6, GEN, 3); session_table_remove(tab, o6, GEN); break;
                            case 3: session_table_add(tab, MX, GEN, XID); session_table_clear(tab); break;
                            case 4:
                                for (int j = 0; j < 15; j++) { o6[1] = (uint8_t)(0x40 + j); session_table_add(tab, o6, (uint16_t)(GEN + j), 3); }
                                for (int j = 14; j >= 0; j--) { o6[1] = (uint8_t)(0x40 + j); session_table_remove(tab, o6, (uint16_t)(GEN + j)); }
                                break;
                        }
                    }
                }
                (void)first;
            }
            session_table_destroy(tab);
        }
    }
    /* the classified Discover follows an earlier Discover of the same session whose list was longer and had the own address
     * somewhere else; behind the entries the count field covers, the receive buffer still holds what earlier frames left there -
     * the own address included.  Only the counted entries of *this* frame decide. */
    unsigned long long seq_cases = 0;
    {
        static const int hs[] = {1, 2, 5, 6, 50, 239};
        for (size_t hi = 0; hi < sizeof(hs) / sizeof(hs[0]); hi++) for (int chg = 0; chg < 2; chg++) for (int recorded = 0; recorded < 2; recorded++) {
            int h = hs[hi];
            if (h + 1 > nmax) continue;
            for (int c = 1; c <= h; c += (h > 6 ? 7 : 1)) for (int jj = 0; jj < 4; jj++) {
                /* where the own address stands in the second frame: at the old place (behind the list now), right behind the
                 * list, inside the list, nowhere */
                int j = jj == 0 ? h : jj == 1 ? c : jj == 2 ? c - 1 : -1;
                session_table *tab = session_table_create();
                if (!tab) { viol("C11:setup", "session_table_create failed"); return 0; }
                for (int step = 0; step < 3; step++) {         /* the long Discover arrives twice (the mapper repeats it), then the short one */
                    int n = step < 2 ? h + 1 : c;
                    int p = step < 2 ? h : j;
                    uint16_t xid = (uint16_t)(step == 2 && chg ? XID + 1 : XID);
                    vp_fill_stream(buf, mtu, fseed + 13);
                    size_t o = mk_base(buf, BCAST, MX, 0, 0, BCAST, MX, xid);
                    buf[o++] = GEN >> 8; buf[o++] = GEN & 255; buf[o++] = (uint8_t)(n >> 8); buf[o++] = (uint8_t)n;
                    uint32_t s4 = fseed * 31337u + (uint32_t)h * 17u + (uint32_t)c;
                    for (size_t i = 36; i < mtu; i++) buf[i] = (uint8_t)(0x80 | (vp_prng(&s4) >> 9));
                    if (p >= 0) memcpy(buf + 36 + 6 * p, OWN, 6);
                    int known = step >= 1 && recorded;
                    int changed2 = known && chg && step == 2;
                    int ack = p >= 0 && p < n;
                    int r = derive_session_event(buf, tab, OWN);
                    int e = c11_expect(ack, changed2);
                    cases++; seq_cases++;
                    if (r != e) {
                        char key[160];
                        snprintf(key, sizeof(key), "C11:discover:%s-after-an-earlier-discover-of-the-session",
                                 r == c11_expect(!ack, changed2) ? (ack ? "own-address-in-list-not-recognised" : "address-behind-the-list-recognised") : "wrong-event");
                        viol(key, "first Discover (seen twice): %d stations, own address at %d (session %s); step %d, then a Discover (%s sequence number): %d stations, own address at "
                             "entry %d (%s): derive_session_event=%d expected %d", h + 1, h, recorded ? "recorded" : "not recorded", step, chg ? "changed" : "same", c, j,
                             j < 0 ? "absent" : j < c ? "inside the list" : "behind the list, in the buffer's tail", r, e);
                        break;
                    } else nontriv++;
                    if (step < 2 && recorded) {
                        session_entry *en = session_table_add(tab, MX, GEN, XID);       /* what the daemon does with a Discover */
                        if (en) en->state = (uint8_t)r;
                    }
                }
                session_table_destroy(tab);
            }
        }
    }
    /* sessions of different age: n mappers' sessions are recorded, one of them is refreshed half a minute later, another half
     * minute later the periodic tick runs - the others have been idle for more than 60 s and leave the table, whichever slots
     * they are in; then every mapper's Discover comes again under a changed sequence number */
    unsigned long long age_cases = 0;
    {
        static const int ns3[] = {2, 3, 5, 16};
        for (int ni = 0; ni < 4; ni++) for (int keep = 0; keep < ns3[ni]; keep += (ns3[ni] > 5 ? 5 : 1)) for (int ack = 0; ack < 2; ack++) {
            int n = ns3[ni];
            session_table *tab = session_table_create();
            if (!tab) { viol("C11:setup", "session_table_create failed"); return 0; }
            uint8_t mp[16][6];
            for (int j = 0; j < n; j++) { uint8_t a6[6] = {2, 0x55, 0, 0, (uint8_t)n, (uint8_t)j}; memcpy(mp[j], a6, 6); session_table_add(tab, mp[j], GEN, XID); }
            vp_now_ms += 30000;
            session_table_add(tab, mp[keep], GEN, XID);
            vp_now_ms += 31000;
            automata_tick(NULL, NULL, tab, NULL);
            for (int j = 0; j < n; j++) {
                vp_fill_stream(buf, mtu, fseed + 13);
                size_t o = mk_base(buf, BCAST, mp[j], 0, 0, BCAST, mp[j], (uint16_t)(XID + 1));
                buf[o++] = GEN >> 8; buf[o++] = GEN & 255; buf[o++] = 0; buf[o++] = 1;
                for (size_t i = 36; i < 200; i++) buf[i] = 0x80;
                if (ack) memcpy(buf + 36, OWN, 6);
                int r = derive_session_event(buf, tab, OWN);
                int e = c11_expect(ack, j == keep);
                cases++; age_cases++;
                if (r != e) {
                    char key[160];
                    snprintf(key, sizeof(key), "C11:discover:wrong-event-after-sessions-of-different-age:%s", j == keep ? "refreshed-session-not-known" : "expired-session-still-known");
                    viol(key, "%d sessions recorded, session %d refreshed 30 s later, tick 31 s after that; Discover of mapper %d under a changed sequence number (%s): "
                         "derive_session_event=%d expected %d", n, keep, j, ack ? "acknowledging" : "not acknowledging", r, e);
                    break;
                } else nontriv++;
            }
            session_table_destroy(tab);
        }
    }
    /* ... and two waves: the table full (or not), a first group of sessions expires at one tick, a second group half a minute
     * later at another, the rest is kept alive */
    {
        static const int ns4[] = {3, 5, 16};
        for (int ni = 0; ni < 3; ni++) for (int shape = 0; shape < 4; shape++) for (int ack = 0; ack < 2; ack++) {
            int n = ns4[ni];
            int grp[16];      /* 0: kept, 1: leaves at the first tick, 2: leaves at the second */
            for (int j = 0; j < n; j++) grp[j] = 0;
            switch (shape) {
                case 0: for (int j = 0; j < n / 2; j++) grp[j] = 1; grp[n - 1] = 2; break;      /* the older half, then the youngest */
                case 1: grp[n > 4 ? 4 : 1] = 1; grp[n - 1] = 2; break;                           /* one in the middle, then the youngest */
                case 2: grp[n - 1] = 1; grp[0] = 2; break;                                       /* the youngest, then the oldest */
                case 3: grp[0] = 1; for (int j = 1; j < n; j += 2) grp[j] = 2; break;
            }
            session_table *tab = session_table_create();
            if (!tab) { viol("C11:setup", "session_table_create failed"); return 0; }
            uint8_t mp[16][6];
            for (int j = 0; j < n; j++) { uint8_t a6[6] = {2, 0x56, (uint8_t)shape, 0, (uint8_t)n, (uint8_t)j}; memcpy(mp[j], a6, 6); session_table_add(tab, mp[j], GEN, XID); }
            vp_now_ms += 30000;
            for (int j = 0; j < n; j++) if (grp[j] != 1) session_table_add(tab, mp[j], GEN, XID);
            vp_now_ms += 31000;
            automata_tick(NULL, NULL, tab, NULL);
            for (int j = 0; j < n; j++) if (grp[j] == 0) session_table_add(tab, mp[j], GEN, XID);
            vp_now_ms += 31000;
            automata_tick(NULL, NULL, tab, NULL);
            for (int j = 0; j < n; j++) {
                vp_fill_stream(buf, mtu, fseed + 13);
                size_t o = mk_base(buf, BCAST, mp[j], 0, 0, BCAST, mp[j], (uint16_t)(XID + 1));
                buf[o++] = GEN >> 8; buf[o++] = GEN & 255; buf[o++] = 0; buf[o++] = 1;
                for (size_t i = 36; i < 200; i++) buf[i] = 0x80;
                if (ack) memcpy(buf + 36, OWN, 6);
                int r = derive_session_event(buf, tab, OWN);
                int e = c11_expect(ack, grp[j] == 0);
                cases++; age_cases++;
                if (r != e) {
                    char key[160];
                    snprintf(key, sizeof(key), "C11:discover:wrong-event-after-sessions-of-different-age:%s", grp[j] == 0 ? "refreshed-session-not-known" : "expired-session-still-known");
                    viol(key, "%d sessions recorded, leaving in two waves (shape %d: session %d was in group %d); Discover of mapper %d under a changed sequence "
                         "number (%s): derive_session_event=%d expected %d", n, shape, j, grp[j], j, ack ? "acknowledging" : "not acknowledging", r, e);
                    break;
                } else nontriv++;
            }
            session_table_destroy(tab);
        }
    }
    stat_ull("cases", cases);
    stat_ull("sessions_of_different_age_cases", age_cases);
    stat_ull("second_discover_cases", seq_cases);
    stat_ull("table_history_cases", hist_cases);
    stat_ull("clock_advanced_cases", clk_cases);
    stat_ull("straddling_cases", straddle);
    stat_ull("odd_entry_cases", odd_cases);
    stat_ull("distinct_nontrivial", nontriv);
    stat_ull("violations", n_viol);
    printf("SAMPLE Discover count=n (1..%d), own address at list position p (0..n-1 or absent), table variant in "
           "{empty,same-seq,different-seq,other-generation,other-mapper}, filler seed %u\n", nmax, fseed);
    free(buf);
    return 0;
}

/* ===================================================================== C13 */

/* args: r_lo r_hi begun ni0 (r_hi exclusive, may be 4294967296) */
static int sweep_c13(int argc, char **argv) {
    if (argc < 4) return 3;
    unsigned long long lo = strtoull(argv[0], NULL, 0), hi = strtoull(argv[1], NULL, 0);
    int begun = atoi(argv[2]);
    uint32_t ni0 = (uint32_t)strtoul(argv[3], NULL, 0);
    uint64_t clk_base = argc > 4 ? strtoull(argv[4], NULL, 0) : 1000;      /* a monotonic clock may have any origin */
    unsigned long long cases = 0, nontriv = 0;
    uint64_t prev_ni = 0, prev_iv = 0;
    int have_prev = 0;
    band_state b;
    /* start one below so monotonicity is also checked across shard boundaries */
    unsigned long long start = lo > 0 ? lo - 1 : 0;
    for (unsigned long long r = start; r < hi; r++) {
        memset(&b, 0, sizeof(b));
        b.Ni = ni0; b.r = (uint32_t)r; b.begun = begun != 0;
        vp_now_ms = clk_base + (r & 1023);
        band_update_stats(&b);
        uint64_t exp;
        if (r > 0 && begun) {
            /* documented constants: NMAX 10000, ALPHA 45, BETA 2 - 64-bit, no wrap */
            unsigned __int128 v = (unsigned __int128)45 * r * r;
            exp = v > 10000 ? 10000 : (uint64_t)v;
        } else exp = ni0;
        cases++;
        int bad = 0;
        if (b.Ni != exp) {
            bad = 1;
            viol(r >= 65536 ? "C13:ni-formula:r>=65536" : "C13:ni-formula:r<65536",
                 "r=%llu begun=%d Ni0=%u: Ni=%u expected %llu", r, begun, ni0, b.Ni, (unsigned long long)exp);
        }
        if (b.r != 0) { bad = 1; viol("C13:r-not-reset", "r=%llu: r after update = %u", r, b.r); }
        if (ni0 >= 45 && ni0 <= 10000 && (b.Ni < 45 || b.Ni > 10000)) {
            bad = 1;
            viol("C13:ni-out-of-range", "r=%llu begun=%d Ni0=%u: Ni=%u outside [45,10000]", r, begun, ni0, b.Ni);
        }
        uint64_t now = vp_now_ms;
        uint64_t ts = band_choose_hello_time(&b);
        uint64_t iv = ts - now;
        uint64_t need = ((uint64_t)8 * b.Ni + 2) / 3;
        if (need < 6) need = 6;
        if (ts != b.hello_timeout_ts || ts < now || iv < need) {
            bad = 1;
            viol("C13:interval-below-load-formula", "r=%llu Ni=%u clock=%llu ms: next Hello at %llu (recorded %llu), interval %llu ms < %llu ms",
                 r, b.Ni, (unsigned long long)now, (unsigned long long)ts, (unsigned long long)b.hello_timeout_ts,
                 (unsigned long long)iv, (unsigned long long)need);
        }
        if (have_prev && begun && r >= 2) {   /* the formula (hence monotonicity) applies to r > 0 only */
            if (b.Ni < prev_ni) { bad = 1; viol("C13:monotone:ni-decreases", "r=%llu: Ni=%u < Ni(r-1)=%llu", r, b.Ni, (unsigned long long)prev_ni); }
            if (iv < prev_iv) { bad = 1; viol("C13:monotone:interval-decreases", "r=%llu: interval %llu < %llu", r, (unsigned long long)iv, (unsigned long long)prev_iv); }
        }
        prev_ni = b.Ni; prev_iv = iv; have_prev = 1;
        if (!bad && r > 0 && begun) nontriv++;
    }
    stat_ull("cases", cases);
    stat_ull("distinct_nontrivial", nontriv);
    stat_ull("violations", n_viol);
    if (lo == 0) printf("SAMPLE r in [%llu,%llu) begun=%d Ni0=%u: Ni==min(10000,45*r^2) (64-bit), r reset, interval>=max(ceil(8Ni/3),6), monotone\n", lo, hi, begun, ni0);
    return 0;
}

/* values mode: args: begun ni0 then r values on stdin */
static int sweep_c13v(int argc, char **argv) {
    if (argc < 2) return 3;
    int begun = atoi(argv[0]);
    uint32_t ni0 = (uint32_t)strtoul(argv[1], NULL, 0);
    uint64_t clk_base = argc > 2 ? strtoull(argv[2], NULL, 0) : 5000;
    unsigned long long cases = 0, nontriv = 0, r, prev_r = 0;
    uint64_t prev_ni = 0, prev_iv = 0;
    int have_prev = 0;
    band_state b;
    while (scanf("%llu", &r) == 1) {
        memset(&b, 0, sizeof(b));
        b.Ni = ni0; b.r = (uint32_t)r; b.begun = begun != 0;
        vp_now_ms = clk_base + (r & 4095);
        band_update_stats(&b);
        unsigned __int128 v = (unsigned __int128)45 * r * r;
        uint64_t exp = (r > 0 && begun) ? (v > 10000 ? 10000 : (uint64_t)v) : ni0;
        cases++;
        int bad = 0;
        if (b.Ni != exp) { bad = 1; viol(r >= 65536 ? "C13:ni-formula:r>=65536" : "C13:ni-formula:r<65536", "r=%llu begun=%d Ni0=%u: Ni=%u expected %llu", r, begun, ni0, b.Ni, (unsigned long long)exp); }
        if (b.r != 0) { bad = 1; viol("C13:r-not-reset", "r=%llu: r after update = %u", r, b.r); }
        if (ni0 >= 45 && ni0 <= 10000 && (b.Ni < 45 || b.Ni > 10000)) { bad = 1; viol("C13:ni-out-of-range", "r=%llu begun=%d Ni0=%u: Ni=%u", r, begun, ni0, b.Ni); }
        uint64_t now = vp_now_ms;
        uint64_t ts = band_choose_hello_time(&b);
        uint64_t iv = ts - now, need = ((uint64_t)8 * b.Ni + 2) / 3;
        if (need < 6) need = 6;
        if (ts != b.hello_timeout_ts || ts < now || iv < need) { bad = 1; viol("C13:interval-below-load-formula", "r=%llu Ni=%u clock=%llu ms: next Hello at %llu (recorded %llu), interval %llu < %llu", r, b.Ni, (unsigned long long)now, (unsigned long long)ts, (unsigned long long)b.hello_timeout_ts, (unsigned long long)iv, (unsigned long long)need); }
        if (have_prev && begun && r >= prev_r && prev_r >= 1) {
            if (b.Ni < prev_ni) { bad = 1; viol("C13:monotone:ni-decreases", "r=%llu: Ni=%u < Ni(%llu)=%llu", r, b.Ni, prev_r, (unsigned long long)prev_ni); }
            if (iv < prev_iv) { bad = 1; viol("C13:monotone:interval-decreases", "r=%llu: interval %llu < %llu", r, (unsigned long long)iv, (unsigned long long)prev_iv); }
        }
        prev_ni = b.Ni; prev_iv = iv; prev_r = r; have_prev = 1;
        if (!bad && r > 0 && begun) nontriv++;
    }
    stat_ull("cases", cases);
    stat_ull("distinct_nontrivial", nontriv);
    stat_ull("violations", n_viol);
    return 0;
}

/* ===================================================================== C14 / C15 single steps */

static int find_state(automata *a, const char *name) {
    for (int i = 0; i < a->states_no && i < MAX_STATES; i++)
        if (a->states_table[i].name && !strcmp(a->states_table[i].name, name)) return i;
    return -1;
}

/* idle periods far beyond any timeout: a responder mapped in the evening and again the next morning, a clock difference
 * that no longer fits 15, 16, 31 or 32 bits */
#define EL_LONG 60, 3600, 32767, 32768, 32769, 40000, 65535, 65536, 65537, 86400, 604800, 2147483647LL, 2147483648LL, \
                4294967295LL, 4294967296LL, 4294967297LL, 4294967296LL + 40000, 1LL << 40
#define NEL (5 + 18)
/* a monotonic clock may read anything when the timer is armed: 0 during the first second after boot, values around
 * 2^32 ms, large values */
static const uint64_t CLK_BASES[] = {100000, 0, 1, 4294960, 4294967, 4294968, 1ull << 40};
#define NBASE 7

static int sweep_c14(int argc, char **argv) {
    (void)argc; (void)argv;
    automata *a = init_automata_mapping();
    if (!a) { printf("INCONCLUSIVE constructor returned NULL\n"); return 0; }
    int Q = find_state(a, "Quiescent"), C = find_state(a, "Command"), E = find_state(a, "Emit");
    if (Q < 0 || C < 0 || E < 0) { printf("INCONCLUSIVE state names not found in the public table\n"); return 0; }
    /* name of the internal "emission complete" input, read from the public table */
    int done = 0, ndone = 0;
    for (int i = 0; i < a->transitions_no; i++) {
        transition *t = &a->transitions_table[i];
        if (t->from == E && t->to == C && t->with < 0 && t->with != -1) { if (!ndone || t->with != done) ndone++; done = t->with; }
    }
    if (ndone != 1) { printf("INCONCLUSIVE emission-complete input not unique in the table (%d candidates)\n", ndone); return 0; }
    unsigned long long cases = 0, nontriv = 0;
    const char *sn[3]; sn[Q] = "idle"; sn[C] = "command"; sn[E] = "emit";
    for (int s = 0; s < 3; s++) {
        long t = a->states_table[s].timeout;
        if (s != Q && !(t > 0 && t <= 30))
            viol("C14:timeout-value", "state %s has timeout %ld s (must be in (0,30])", sn[s], t);
        long long el[NEL] = {0, t - 1, t, t + 1, 10 * t, EL_LONG};
        if (s == Q) { el[1] = 1; el[2] = 30; el[3] = 31; el[4] = 300; }
        for (int in = -128; in <= 255; in++) {
            for (int kb = 0; kb < NEL * NBASE; kb++) {
                int k = kb % NEL;
                if (el[k] < 0) continue;
                uint64_t base = CLK_BASES[kb / NEL];        /* the clock reading (s) at which the timer was armed */
                a->current_state = (uint8_t)s;
                a->last_ts = base;
                vp_now_ms = (base + (uint64_t)el[k]) * 1000 + 500;
                switch_state_mapping(a, in, "sweep");
                int got = a->current_state;
                cases++;
                int exp = s;
                if (s == Q && in == 0) exp = C;
                else if (s == C && in == 2) exp = E;
                else if (s == E && in == done) exp = C;
                else if ((s == C || s == E) && in == 8) exp = Q;
                else if ((s == C || s == E) && in == -1) exp = Q;
                int timed_out = (s != Q) && t > 0 && el[k] > t;
                int ok;
                if (timed_out) ok = (got == Q) || (in == 0 && got == C);
                else ok = (got == exp);
                if (!ok) {
                    char key[128];
                    snprintf(key, sizeof(key), "C14:step:%s:%s", sn[s],
                             timed_out ? "timeout-not-honoured" : (exp == s ? "spurious-transition" : "missing-transition"));
                    viol(key, "state=%s input=%d elapsed=%llds (timeout %lds), timer armed at clock %llu s: new state %d, expected %s%d", sn[s], in, el[k], t,
                         (unsigned long long)base, got, timed_out ? "idle or reopened, e.g. " : "", timed_out ? Q : exp);
                } else if (got != s) nontriv++;
                /* the timer must run from this input - observable only while a timeout is armed (active state) */
                if (got != Q && a->last_ts != base + (uint64_t)el[k])
                    viol("C14:last-ts-not-updated", "state=%s input=%d: last_ts=%llu now=%llu", sn[s], in,
                         (unsigned long long)a->last_ts, (unsigned long long)(base + (uint64_t)el[k]));
            }
        }
    }
    stat_ull("cases", cases);
    stat_ull("distinct_nontrivial", nontriv);
    stat_ull("violations", n_viol);
    printf("SAMPLE mapping step: state x input in [-128,255] x elapsed {0,t-1,t,t+1,10t}; emission-complete input read from table = %d\n", done);
    return 0;
}

static int sweep_c15(int argc, char **argv) {
    (void)argc; (void)argv;
    automata *a = init_automata_session();
    if (!a) { printf("INCONCLUSIVE constructor returned NULL\n"); return 0; }
    int T = find_state(a, "Temporary"), N = find_state(a, "Nascent"), P = find_state(a, "Pending"), C = find_state(a, "Complete");
    if (T < 0 || N < 0 || P < 0 || C < 0) { printf("INCONCLUSIVE state names not found in the public table\n"); return 0; }
    const char *sn[8] = {0};
    sn[T] = "temporary"; sn[N] = "nascent"; sn[P] = "pending"; sn[C] = "complete";
    unsigned long long cases = 0, nontriv = 0;
    int order[4] = {N, P, C, T};
    for (int oi = 0; oi < 4; oi++) {
        int s = order[oi];
        long t = a->states_table[s].timeout;
        long long el[NEL] = {0, t - 1, t, t + 1, 10 * t, EL_LONG};
        if (t <= 0) { el[1] = 1; el[2] = 2; el[3] = 60; el[4] = 600; }
        for (int ev = 0; ev <= 7; ev++) {
            for (int kb = 0; kb < NEL * NBASE; kb++) {
                int k = kb % NEL;
                if (el[k] < 0) continue;
                uint64_t base = CLK_BASES[kb / NEL];        /* the clock reading (s) at which the timer was armed */
                a->current_state = (uint8_t)s;
                a->last_ts = base;
                vp_now_ms = (base + (uint64_t)el[k]) * 1000 + 1;
                switch_state_session(a, ev, "sweep");
                int got = a->current_state;
                cases++;
                /* the statement's table */
                #define STEP(S, EV, TO) if (s_ == (S) && ev == (EV)) r_ = (TO)
                int exp, expn;
                {
                    int s_ = s, r_ = s;
                    STEP(N, 2, P); STEP(N, 3, C); STEP(N, 0, T);
                    STEP(P, 3, C); STEP(P, 5, C); STEP(P, 1, N);
                    STEP(C, 4, P); STEP(C, 1, N);
                    STEP(T, 1, N); STEP(T, 7, N); STEP(T, 6, N);
                    exp = r_;
                }
                {
                    int s_ = N, r_ = N;
                    STEP(N, 2, P); STEP(N, 3, C); STEP(N, 0, T);
                    expn = r_;
                }
                int timed_out = t > 0 && el[k] > t;
                int ok = timed_out ? (got == N || got == expn) : (got == exp);
                if (a->last_ts != base + (uint64_t)el[k])
                    viol("C15:last-ts-not-updated", "state=%s event=%d elapsed=%llds: last_ts=%llu, now=%llu (the inactivity "
                         "timeout is measured from the last input)", sn[s], ev, el[k], (unsigned long long)a->last_ts,
                         (unsigned long long)(base + (uint64_t)el[k]));
                if (!ok) {
                    char key[128];
                    snprintf(key, sizeof(key), "C15:step:%s:event=%d:%s", sn[s], ev,
                             timed_out ? "timeout-not-honoured" : (exp == s ? "spurious-transition" : "missing-transition"));
                    viol(key, "state=%s event=%d elapsed=%llds (timeout %lds), timer armed at clock %llu s: new state %s, expected %s", sn[s], ev, el[k], t,
                         (unsigned long long)base, got < 8 && sn[got] ? sn[got] : "?", sn[timed_out ? N : exp]);
                } else if (got != s) nontriv++;
            }
        }
    }
    stat_ull("cases", cases);
    stat_ull("distinct_nontrivial", nontriv);
    stat_ull("violations", n_viol);
    printf("SAMPLE session step: 4 states x events 0..7 x elapsed {0,t-1,t,t+1,10t}\n");
    return 0;
}

/* ===================================================================== two-step histories (C14, C15) */

/* statement tables, as functions */
static int c15_tab(int T, int N, int P, int C, int s, int ev) {
    if (s == N) { if (ev == 2) return P; if (ev == 3) return C; if (ev == 0) return T; }
    if (s == P) { if (ev == 3 || ev == 5) return C; if (ev == 1) return N; }
    if (s == C) { if (ev == 4) return P; if (ev == 1) return N; }
    if (s == T) { if (ev == 1 || ev == 7 || ev == 6) return N; }
    return s;
}

static int sweep_c15h(int argc, char **argv) {
    (void)argc; (void)argv;
    automata *a = init_automata_session();
    if (!a) { printf("INCONCLUSIVE constructor returned NULL\n"); return 0; }
    int T = find_state(a, "Temporary"), N = find_state(a, "Nascent"), P = find_state(a, "Pending"), C = find_state(a, "Complete");
    if (T < 0 || N < 0 || P < 0 || C < 0) { printf("INCONCLUSIVE state names not found\n"); return 0; }
    unsigned long long cases = 0, nontriv = 0, phased = 0;
    for (int s0 = 0; s0 < 4; s0++) {
        long t0 = a->states_table[s0].timeout;
        long g[5] = {0, t0 - 1, t0, t0 + 1, 10 * t0};
        for (int e1 = 0; e1 <= 7; e1++) for (int k1 = 0; k1 < 5; k1++) {
            if (g[k1] < 0) continue;
            for (int e2 = 0; e2 <= 7; e2++) for (int k2 = 0; k2 < 5; k2++) for (int ph = 0; ph < 5; ph++) {
                /* where inside their second the two inputs fall: the timeout is counted in whole seconds of the port's
                 * clock, whatever the sub-second phase of the readings */
                static const unsigned ph1[5] = {7, 900, 50, 999, 0}, ph2[5] = {7, 50, 900, 0, 999};
                uint64_t base = 70000;
                a->current_state = (uint8_t)s0; a->last_ts = base;
                vp_now_ms = (base + (uint64_t)g[k1]) * 1000 + ph1[ph];
                switch_state_session(a, e1, "h1");
                int s1 = a->current_state;
                /* step 1 is judged by the single-step sweep; here the state it produced is taken as given */
                long t1 = a->states_table[s1].timeout;
                long g2v[5] = {0, t1 - 1, t1, t1 + 1, 10 * t1};
                if (g2v[k2] < 0) continue;
                vp_now_ms = (base + (uint64_t)g[k1] + (uint64_t)g2v[k2]) * 1000 + ph2[ph];
                switch_state_session(a, e2, "h2");
                if (ph) phased++;
                int s2 = a->current_state;
                cases++;
                /* the timeout of step 2 runs from the *input* of step 1, whatever step 1 did */
                int timed_out = t1 > 0 && g2v[k2] > t1;
                int ok = timed_out ? (s2 == N || s2 == c15_tab(T, N, P, C, N, e2)) : (s2 == c15_tab(T, N, P, C, s1, e2));
                if (!ok) {
                    char key[128];
                    snprintf(key, sizeof(key), "C15:history:%s", timed_out ? "timeout-not-honoured" : "wrong-transition-after-earlier-input");
                    viol(key, "start state %d, event %d after %lds, then event %d after another %lds (timeout %lds): state %d -> %d -> %d",
                         s0, e1, g[k1], e2, g2v[k2], t1, s0, s1, s2);
                } else if (s2 != s1) nontriv++;
            }
        }
    }
    stat_ull("cases", cases);
    stat_ull("phased_cases", phased);
    stat_ull("distinct_nontrivial", nontriv);
    stat_ull("violations", n_viol);
    printf("SAMPLE session two-step histories: 4 states x (event, gap) x (event, gap), gaps in {0,t-1,t,t+1,10t}\n");
    return 0;
}

static int c14_tab(int Q, int C, int E, int done, int s, int in) {
    if (s == Q && in == 0) return C;
    if (s == C && in == 2) return E;
    if (s == E && in == done) return C;
    if ((s == C || s == E) && (in == 8 || in == -1)) return Q;
    return s;
}

static int sweep_c14h(int argc, char **argv) {
    (void)argc; (void)argv;
    automata *a = init_automata_mapping();
    if (!a) { printf("INCONCLUSIVE constructor returned NULL\n"); return 0; }
    int Q = find_state(a, "Quiescent"), C = find_state(a, "Command"), E = find_state(a, "Emit");
    if (Q < 0 || C < 0 || E < 0) { printf("INCONCLUSIVE state names not found\n"); return 0; }
    int done = 0, ndone = 0;
    for (int i = 0; i < a->transitions_no; i++) {
        transition *t = &a->transitions_table[i];
        if (t->from == E && t->to == C && t->with < 0 && t->with != -1) { if (!ndone || t->with != done) ndone++; done = t->with; }
    }
    if (ndone != 1) { printf("INCONCLUSIVE emission-complete input not unique\n"); return 0; }
    static const int second[] = {-128, -3, -2, -1, 0, 1, 2, 3, 4, 5, 6, 7, 8, 9, 10, 11, 12, 13, 127, 255};
    unsigned long long cases = 0, nontriv = 0;
    for (int s0 = 0; s0 < 3; s0++) {
        long t0 = a->states_table[s0].timeout;
        long g[5] = {0, t0 - 1, t0, t0 + 1, 10 * t0};
        if (s0 == Q) { g[1] = 1; g[2] = 5; g[3] = 31; g[4] = 300; }
        for (int in1 = -128; in1 <= 255; in1++) for (int k1 = 0; k1 < 5; k1++) {
            if (g[k1] < 0) continue;
            for (size_t j = 0; j < sizeof(second) / sizeof(second[0]); j++) for (int k2 = 0; k2 < 5; k2++) for (int ph = 0; ph < 3; ph++) {
                static const unsigned ph1[3] = {3, 900, 50}, ph2[3] = {3, 50, 900};   /* sub-second phase of the two readings */
                uint64_t base = 90000;
                a->current_state = (uint8_t)s0; a->last_ts = base;
                vp_now_ms = (base + (uint64_t)g[k1]) * 1000 + ph1[ph];
                switch_state_mapping(a, in1, "h1");
                int s1 = a->current_state;
                long t1 = a->states_table[s1].timeout;
                long g2v[5] = {0, t1 - 1, t1, t1 + 1, 10 * t1};
                if (s1 == Q) { g2v[1] = 1; g2v[2] = 5; g2v[3] = 31; g2v[4] = 300; }
                if (g2v[k2] < 0) continue;
                int in2 = second[j];
                vp_now_ms = (base + (uint64_t)g[k1] + (uint64_t)g2v[k2]) * 1000 + ph2[ph];
                switch_state_mapping(a, in2, "h2");
                int s2 = a->current_state;
                cases++;
                int timed_out = s1 != Q && t1 > 0 && g2v[k2] > t1;
                int ok = timed_out ? (s2 == Q || (in2 == 0 && s2 == C)) : (s2 == c14_tab(Q, C, E, done, s1, in2));
                if (!ok) {
                    char key[128];
                    snprintf(key, sizeof(key), "C14:history2:%s", timed_out ? "timeout-not-honoured" : "wrong-transition-after-earlier-input");
                    viol(key, "start state %d, input %d after %lds, then input %d after another %lds (timeout %lds): state %d -> %d -> %d",
                         s0, in1, g[k1], in2, g2v[k2], t1, s0, s1, s2);
                } else if (s2 != s1) nontriv++;
            }
        }
    }
    stat_ull("cases", cases);
    stat_ull("distinct_nontrivial", nontriv);
    stat_ull("violations", n_viol);
    printf("SAMPLE mapping two-step histories: 3 states x (input -128..255, gap) x (20 representative inputs, gap)\n");
    return 0;
}

int main(int argc, char **argv) {
    if (argc < 2) { fprintf(stderr, "usage: vh_sweep <c05|c08|c11|c13|c13v|c14|c15> args...\n"); return 3; }
    vp_opt_sleep = 0;
    int rc = 3;
    if (!strcmp(argv[1], "c05")) rc = sweep_c05(argc - 2, argv + 2);
    else if (!strcmp(argv[1], "c08")) rc = sweep_c08(argc - 2, argv + 2);
    else if (!strcmp(argv[1], "c11")) rc = sweep_c11(argc - 2, argv + 2);
    else if (!strcmp(argv[1], "c13")) rc = sweep_c13(argc - 2, argv + 2);
    else if (!strcmp(argv[1], "c13v")) rc = sweep_c13v(argc - 2, argv + 2);
    else if (!strcmp(argv[1], "c14")) rc = sweep_c14(argc - 2, argv + 2);
    else if (!strcmp(argv[1], "c15")) rc = sweep_c15(argc - 2, argv + 2);
    else if (!strcmp(argv[1], "c15h")) rc = sweep_c15h(argc - 2, argv + 2);
    else if (!strcmp(argv[1], "c14h")) rc = sweep_c14h(argc - 2, argv + 2);
    viol_summary();
    fflush(stdout);
    return rc;
}
